// numeric_models.go — the T2 translation table of property C18 (substitution models):
// closed forms and eigen-systems of models/dna/{jc,k2p,f84}.go, rate-matrix constructions and
// normalisations of models/dna/{f81,tn93,gtr}.go.  Output: lean/Gv/Gen/NumericModels.lean,
// namespace Gv.Gen.Models.
package main

import "path/filepath"

var numericModels = []numSpec{
	{File: "models/dna/jc.go", Recv: "JCModel", Func: "Pij"},
	{File: "models/dna/jc.go", Recv: "JCModel", Func: "Eigens"},
	{File: "models/dna/k2p.go", Recv: "K2PModel", Func: "InitModel"},
	{File: "models/dna/k2p.go", Recv: "K2PModel", Func: "Pij"},
	{File: "models/dna/k2p.go", Recv: "K2PModel", Func: "Eigens"},
	{File: "models/dna/f84.go", Recv: "F84Model", Func: "InitModel"},
	{File: "models/dna/f84.go", Recv: "F84Model", Func: "Eigens"},
	{File: "models/dna/f81.go", Recv: "F81Model", Func: "InitModel", Opaque: []string{"computeEigens"}},
	{File: "models/dna/tn93.go", Recv: "TN93Model", Func: "InitModel", Opaque: []string{"computeEigens"}},
	{File: "models/dna/gtr.go", Recv: "GTRModel", Func: "InitModel", Opaque: []string{"computeEigens"}},
}

func emitNumericModels(repo, out string) {
	emitNumeric(repo, filepath.Join(out, "NumericModels.lean"), "Gv.Gen.Models",
		"Straight-line float code of `models/dna` (property C18), generic in the numeric type.",
		numericModels, "")
}
