// numeric_models.go — the T2 translation table of property C18 (substitution models):
// closed forms and eigen-systems of models/dna/{jc,k2p,f84}.go, rate-matrix constructions and
// normalisations of models/dna/{f81,tn93,gtr}.go.  Output: lean/Gv/Gen/NumericModels.lean,
// namespace Gv.Gen.Models.
package main

import (
	"fmt"
	"go/ast"
	"go/token"
	"math"
	"path/filepath"
	"strconv"
)

// floatConstBits finds the float constant `name` of a file and returns its IEEE-754 bit pattern.
func floatConstBits(f *ast.File, name string) uint64 {
	for _, d := range f.Decls {
		gd, ok := d.(*ast.GenDecl)
		if !ok || gd.Tok != token.CONST {
			continue
		}
		for _, sp := range gd.Specs {
			vs := sp.(*ast.ValueSpec)
			for i, n := range vs.Names {
				if n.Name != name || i >= len(vs.Values) {
					continue
				}
				bl, ok := vs.Values[i].(*ast.BasicLit)
				if !ok || (bl.Kind != token.FLOAT && bl.Kind != token.INT) {
					die("constant %s is not a numeric literal", name)
				}
				v, err := strconv.ParseFloat(bl.Value, 64)
				if err != nil {
					die("constant %s: %v", name, err)
				}
				return math.Float64bits(v)
			}
		}
	}
	die("float constant %s not found", name)
	return 0
}

var numericModels = []numSpec{
	{File: "models/dna/jc.go", Recv: "JCModel", Func: "Pij"},
	{File: "models/dna/jc.go", Recv: "JCModel", Func: "Eigens"},
	{File: "models/dna/k2p.go", Recv: "K2PModel", Func: "InitModel"},
	{File: "models/dna/k2p.go", Recv: "K2PModel", Func: "Pij"},
	{File: "models/dna/k2p.go", Recv: "K2PModel", Func: "Eigens"},
	{File: "models/dna/f84.go", Recv: "F84Model", Func: "InitModel"},
	{File: "models/dna/f84.go", Recv: "F84Model", Func: "Eigens"},
	{File: "models/dna/f81.go", Recv: "F81Model", Func: "InitModel", Opaque: []string{"computeEigens"}},
	{File: "models/dna/tn93.go", Recv: "TN93Model", Func: "InitModel", Opaque: []string{"computeEigens"}},
	{File: "models/dna/gtr.go", Recv: "GTRModel", Func: "InitModel", Opaque: []string{"computeEigens"}},
}

func emitNumericModels(repo, out string) {
	// the positivity floor of models.Pij.SetLength (package models: models/gamma.go), as IEEE bits
	extra := fmt.Sprintf("/-- IEEE-754 bits of `DBL_MIN` (models/gamma.go), the floor used by `Pij.SetLength` -/\ndef c_DBL_MIN_bits : Nat := %d\n\n",
		floatConstBits(parseFile(filepath.Join(repo, "models/gamma.go")), "DBL_MIN"))
	emitNumeric(repo, filepath.Join(out, "NumericModels.lean"), "Gv.Gen.Models",
		"Straight-line float code of `models/dna` (property C18), generic in the numeric type.",
		numericModels, extra)
	emitProteinTables(repo, out)
}
