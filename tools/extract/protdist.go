// protdist.go — ties T1/T2/T3 of property C17 (protein distances): what the hand-written model
// lean/Gv/Model/ProtDist.lean reads from the *current* working tree of distance/protein.
//
//   T1  constants of lk.go / model.go as exact rationals (PROT_DIST_MAX, BL_MIN, BL_MAX, BRENT_ITMAX,
//       BRENT_ZEPS, BRENT_CGOLD; DBL_MIN as IEEE bits), the literals MLDist / opt_Dist_F / dist_F_Brent
//       use (restart value 0.1, thresholds on the frequency sum, Brent tolerance and iteration cap, the
//       1e-6 stop distance), the character set of `isAmbigu`, the value of `Ns()`.
//   T2  the per-cell arithmetic of the second loop of JC69Dist (normalisation of p, the JC69 formula,
//       the caps), executed symbolically into one definition generic in `[RealLike α]`.
//   T3  three structural facts the model's `Variant` is read from: the text of Brent's stop test, of
//       the statement aaFrequency executes for a character outside the alphabet, and of the test in
//       check2SequencesDiff.
//
// Anything whose shape is not understood makes the extractor exit 2 (never skipped).  Self-contained:
// only die, fset, parseFile, findFunc, evalInt, env, writeIfChanged of main.go and floatConstBits /
// nodeString of the sibling files are used.
package main

import (
	"fmt"
	"go/ast"
	"go/token"
	"math/big"
	"path/filepath"
	"strings"
)

type pdTr struct {
	en    env               // integer constants / variables (ns)
	cells map[string]string // matrix name -> current Lean expression of cell (i, j)
	fn    string
}

func (t *pdTr) bad(n ast.Node, what string) {
	die("protdist (%s): unsupported %s `%s` at %v", t.fn, what, nodeString(n), fset.Position(n.Pos()))
}

func pdRat(n ast.Node, s string) *big.Rat {
	if strings.HasPrefix(s, ".") {
		s = "0" + s
	}
	s = strings.Replace(s, ".e", ".0e", 1)
	s = strings.Replace(s, ".E", ".0E", 1)
	if strings.HasSuffix(s, ".") {
		s += "0"
	}
	r, ok := new(big.Rat).SetString(s)
	if !ok {
		die("protdist: bad numeric literal %q at %v", s, fset.Position(n.Pos()))
	}
	return r
}

func pdRatLean(r *big.Rat) string {
	neg := r.Sign() < 0
	a := new(big.Rat).Abs(r)
	var s string
	if a.IsInt() {
		s = fmt.Sprintf("(%s : α)", a.Num().String())
	} else {
		s = fmt.Sprintf("((%s : α) / (%s : α))", a.Num().String(), a.Denom().String())
	}
	if neg {
		s = "(-" + s + ")"
	}
	return s
}

// at: `M.At(i, j)` -> M
func pdAt(e ast.Expr) (string, bool) {
	ce, ok := e.(*ast.CallExpr)
	if !ok || len(ce.Args) != 2 {
		return "", false
	}
	se, ok := ce.Fun.(*ast.SelectorExpr)
	if !ok || se.Sel.Name != "At" {
		return "", false
	}
	id, ok := se.X.(*ast.Ident)
	if !ok || nodeString(ce.Args[0]) != "i" || nodeString(ce.Args[1]) != "j" {
		return "", false
	}
	return id.Name, true
}

func (t *pdTr) expr(e ast.Expr) string {
	switch x := e.(type) {
	case *ast.ParenExpr:
		return t.expr(x.X)
	case *ast.BasicLit:
		if x.Kind == token.FLOAT || x.Kind == token.INT {
			return pdRatLean(pdRat(x, x.Value))
		}
	case *ast.Ident:
		if x.Name == "PROT_DIST_MAX" {
			return "(PROT_DIST_MAX : α)"
		}
	case *ast.UnaryExpr:
		if x.Op == token.SUB {
			return "(-" + t.expr(x.X) + ")"
		}
	case *ast.BinaryExpr:
		op := map[token.Token]string{token.ADD: "+", token.SUB: "-", token.MUL: "*", token.QUO: "/"}[x.Op]
		if op != "" {
			return "(" + t.expr(x.X) + " " + op + " " + t.expr(x.Y) + ")"
		}
	case *ast.CallExpr:
		if m, ok := pdAt(x); ok {
			if v, ok := t.cells[m]; ok {
				return v
			}
		}
		if id, ok := x.Fun.(*ast.Ident); ok && id.Name == "float64" && len(x.Args) == 1 {
			if v, ok := evalInt(x.Args[0], t.en); ok && v >= 0 {
				return fmt.Sprintf("(%d : α)", v)
			}
		}
		if nodeString(x.Fun) == "math.Log" && len(x.Args) == 1 {
			return "(RealLike.log " + t.expr(x.Args[0]) + ")"
		}
	}
	t.bad(e, "expression")
	return ""
}

func (t *pdTr) cond(e ast.Expr) string {
	switch x := e.(type) {
	case *ast.ParenExpr:
		return t.cond(x.X)
	case *ast.BinaryExpr:
		a, b := func() string { return t.expr(x.X) }, func() string { return t.expr(x.Y) }
		switch x.Op {
		case token.LSS:
			return "(RealLike.ltb " + a() + " " + b() + ")"
		case token.GTR:
			return "(RealLike.ltb " + b() + " " + a() + ")"
		case token.LEQ:
			return "(RealLike.leb " + a() + " " + b() + ")"
		case token.GEQ:
			return "(RealLike.leb " + b() + " " + a() + ")"
		}
	}
	t.bad(e, "condition")
	return ""
}

// set: `M.Set(i, j, e)` -> (M, e, mirror=false) ; `M.Set(j, i, M.At(i, j))` -> (M, nil, mirror=true)
func (t *pdTr) set(s ast.Stmt) (m string, val ast.Expr, mirror bool) {
	es, ok := s.(*ast.ExprStmt)
	if !ok {
		t.bad(s, "statement")
	}
	ce, ok := es.X.(*ast.CallExpr)
	if !ok || len(ce.Args) != 3 {
		t.bad(s, "statement")
	}
	se, ok := ce.Fun.(*ast.SelectorExpr)
	if !ok || se.Sel.Name != "Set" {
		t.bad(s, "statement")
	}
	id, ok := se.X.(*ast.Ident)
	if !ok {
		t.bad(s, "statement")
	}
	i, j := nodeString(ce.Args[0]), nodeString(ce.Args[1])
	if i == "i" && j == "j" {
		return id.Name, ce.Args[2], false
	}
	if i == "j" && j == "i" {
		if src, ok := pdAt(ce.Args[2]); !ok || src != id.Name {
			t.bad(s, "mirror assignment")
		}
		return id.Name, nil, true
	}
	t.bad(s, "statement")
	return
}

func pdInnerBody(fd *ast.FuncDecl, nth int) []ast.Stmt {
	k := 0
	for _, s := range fd.Body.List {
		if fs, ok := s.(*ast.ForStmt); ok {
			if k == nth {
				if len(fs.Body.List) != 1 {
					break
				}
				in, ok := fs.Body.List[0].(*ast.ForStmt)
				if !ok {
					break
				}
				return in.Body.List
			}
			k++
		}
	}
	die("protdist: loop nest %d of %s not found", nth, fd.Name.Name)
	return nil
}

// emitJC69Cell: symbolic execution of the body of the second loop nest of JC69Dist
func emitJC69Cell(w *strings.Builder, fd *ast.FuncDecl, ns int64) {
	t := &pdTr{en: env{"ns": ns}, cells: map[string]string{"p": "p0", "len": "len0", "dist": "(0 : α)"}, fn: "JC69Dist"}
	var lets []string
	mirrored := map[string]bool{}
	fresh := map[string]int{}
	bind := func(m, e string) {
		fresh[m]++
		nm := fmt.Sprintf("%s_%d", m, fresh[m])
		lets = append(lets, fmt.Sprintf("  let %s : α := %s;", nm, e))
		t.cells[m] = nm
	}
	branch := func(b *ast.BlockStmt) (string, string) {
		if b == nil {
			return "", ""
		}
		if len(b.List) != 1 {
			t.bad(b, "branch (one Set expected)")
		}
		m, v, mir := t.set(b.List[0])
		if mir {
			t.bad(b, "mirror assignment in a branch")
		}
		return m, t.expr(v)
	}
	for _, s := range pdInnerBody(fd, 1) {
		switch x := s.(type) {
		case *ast.IfStmt:
			if x.Init != nil {
				t.bad(x, "if with init")
			}
			c := t.cond(x.Cond)
			m1, e1 := branch(x.Body)
			m2, e2 := m1, t.cells[m1]
			if x.Else != nil {
				eb, ok := x.Else.(*ast.BlockStmt)
				if !ok {
					t.bad(x, "else-if")
				}
				m2, e2 = branch(eb)
			}
			if m1 != m2 {
				t.bad(x, "branches assigning different matrices")
			}
			bind(m1, fmt.Sprintf("(if %s then %s else %s)", c, e1, e2))
		default:
			m, v, mir := t.set(s)
			if mir {
				mirrored[m] = true
			} else {
				bind(m, t.expr(v))
			}
		}
	}
	if !mirrored["p"] || !mirrored["dist"] {
		die("protdist: JC69Dist no longer mirrors p and dist into the lower triangle")
	}
	w.WriteString("/-- generated from the second loop nest of distance/protein/model.go `JC69Dist` (cell (i, j), i < j;\n")
	w.WriteString("`p0`, `len0`: the weighted counts of differing / comparable sites left by the first loop nest; `ns` = " + fmt.Sprint(ns) + "):\n")
	w.WriteString("(p(i,j), dist(i,j)) — both are copied to (j, i) -/\n")
	w.WriteString("def jc69Cell (p0 len0 : α) : α × α :=\n")
	for _, l := range lets {
		w.WriteString(l + "\n")
	}
	fmt.Fprintf(w, "  (%s, %s)\n\n", t.cells["p"], t.cells["dist"])
}

func pdFloatConst(f *ast.File, name string) *big.Rat {
	for _, d := range f.Decls {
		gd, ok := d.(*ast.GenDecl)
		if !ok || gd.Tok != token.CONST {
			continue
		}
		for _, sp := range gd.Specs {
			vs := sp.(*ast.ValueSpec)
			for i, n := range vs.Names {
				if n.Name == name && i < len(vs.Values) {
					bl, ok := vs.Values[i].(*ast.BasicLit)
					if !ok {
						die("protdist: constant %s is not a literal", name)
					}
					return pdRat(bl, bl.Value)
				}
			}
		}
	}
	die("protdist: constant %s not found", name)
	return nil
}

// pdFind walks a function body and returns the first node accepted by f
func pdFind(fd *ast.FuncDecl, f func(ast.Node) bool) ast.Node {
	var hit ast.Node
	ast.Inspect(fd.Body, func(n ast.Node) bool {
		if hit != nil || n == nil {
			return false
		}
		if f(n) {
			hit = n
			return false
		}
		return true
	})
	return hit
}

func pdAssigns(b *ast.BlockStmt, lhs string) (ast.Expr, bool) {
	for _, s := range b.List {
		if as, ok := s.(*ast.AssignStmt); ok && len(as.Lhs) == 1 && nodeString(as.Lhs[0]) == lhs {
			return as.Rhs[0], true
		}
	}
	return nil, false
}

func leanStr(s string) string {
	return "\"" + strings.ReplaceAll(strings.ReplaceAll(s, "\\", "\\\\"), "\"", "\\\"") + "\""
}

func emitProtDist(repo, out string, en env) {
	lk := parseFile(filepath.Join(repo, "distance/protein/lk.go"))
	md := parseFile(filepath.Join(repo, "distance/protein/model.go"))
	ut := parseFile(filepath.Join(repo, "distance/protein/utils.go"))
	var w strings.Builder
	w.WriteString("-- GENERATED by tools/extract (protdist.go, ties T1/T2/T3) from distance/protein/*.go of the working tree. Do not edit.\n")
	w.WriteString("import Gv.Num\nset_option linter.unusedVariables false\nnamespace Gv.Gen.ProtDist\nopen Gv\n\n")

	// ---- T1: constants ------------------------------------------------------------------------
	itmax, ok := int64(0), false
	{
		e := env{}
		collectConsts(lk, e)
		itmax, ok = e["BRENT_ITMAX"]
		if !ok {
			die("protdist: BRENT_ITMAX not found")
		}
	}
	fmt.Fprintf(&w, "def BRENT_ITMAX : Nat := %d\n", itmax)
	fmt.Fprintf(&w, "/-- IEEE-754 bits of `DBL_MIN` (distance/protein/lk.go), the floor of `pMatEmpirical` -/\ndef c_DBL_MIN_bits : Nat := %d\n", floatConstBits(lk, "DBL_MIN"))
	nsFd := findFunc(md, "ProtDistModel", "Ns")
	var ns int64
	if nsFd == nil || len(nsFd.Body.List) != 1 {
		die("protdist: Ns() is not a single return")
	} else if rs, ok := nsFd.Body.List[0].(*ast.ReturnStmt); !ok || len(rs.Results) != 1 {
		die("protdist: Ns() is not a single return")
	} else if ns, ok = evalInt(rs.Results[0], env{}); !ok {
		die("protdist: Ns() does not return a constant")
	}
	fmt.Fprintf(&w, "/-- `(*ProtDistModel).Ns()` -/\ndef NS : Nat := %d\n", ns)
	// isAmbigu: disjunction of `c == align.X`
	{
		fd := findFunc(ut, "", "isAmbigu")
		if fd == nil || len(fd.Body.List) != 1 {
			die("protdist: isAmbigu is not a single return")
		}
		rs, ok := fd.Body.List[0].(*ast.ReturnStmt)
		if !ok || len(rs.Results) != 1 {
			die("protdist: isAmbigu is not a single return")
		}
		var chars []string
		var walk func(e ast.Expr)
		walk = func(e ast.Expr) {
			switch x := e.(type) {
			case *ast.ParenExpr:
				walk(x.X)
				return
			case *ast.BinaryExpr:
				if x.Op == token.LOR {
					walk(x.X)
					walk(x.Y)
					return
				}
				if x.Op == token.EQL && nodeString(x.X) == "c" {
					if se, ok := x.Y.(*ast.SelectorExpr); ok && nodeString(se.X) == "align" {
						if v, ok := en[se.Sel.Name]; ok && v >= 0 && v < 256 {
							chars = append(chars, fmt.Sprint(v))
							return
						}
					}
				}
			}
			die("protdist: isAmbigu: unsupported test `%s`", nodeString(e))
		}
		walk(rs.Results[0])
		fmt.Fprintf(&w, "/-- the characters for which `isAmbigu` (distance/protein/utils.go) answers true -/\ndef isAmbiguChars : List UInt8 := [%s]\n\n", strings.Join(chars, ", "))
	}

	// ---- T3: structural facts the model's Variant is read from -----------------------------------
	brent := findFunc(lk, "ProtDistModel", "dist_F_Brent")
	optd := findFunc(lk, "ProtDistModel", "opt_Dist_F")
	mld := findFunc(lk, "ProtDistModel", "MLDist")
	aaf := findFunc(ut, "", "aaFrequency")
	c2d := findFunc(ut, "", "check2SequencesDiff")
	if brent == nil || optd == nil || mld == nil || aaf == nil || c2d == nil {
		die("protdist: a function of distance/protein is missing")
	}
	stop := pdFind(brent, func(n ast.Node) bool {
		is, ok := n.(*ast.IfStmt)
		if !ok {
			return false
		}
		_, ok = pdAssigns(is.Body, "*param")
		return ok && len(is.Body.List) >= 2
	})
	if stop == nil {
		die("protdist: the convergence exit of dist_F_Brent (`*param = x`) was not found")
	}
	fmt.Fprintf(&w, "/-- the stop test of `dist_F_Brent` (the `if` whose body stores `*param = x` and returns) -/\ndef brentStopCond : String := %s\n", leanStr(nodeString(stop.(*ast.IfStmt).Cond)))
	unk := pdFind(aaf, func(n ast.Node) bool {
		is, ok := n.(*ast.IfStmt)
		return ok && nodeString(is.Cond) == "idx >= 0" && is.Else != nil
	})
	if unk == nil {
		die("protdist: aaFrequency: `if idx >= 0 {…} else {…}` not found")
	}
	fmt.Fprintf(&w, "/-- what `aaFrequency` executes for a character outside the alphabet (else-branch of `if idx >= 0`) -/\ndef aaFreqUnknownStmt : String := %s\n", leanStr(nodeString(unk.(*ast.IfStmt).Else)))
	dif := pdFind(c2d, func(n ast.Node) bool { _, ok := n.(*ast.IfStmt); return ok })
	if dif == nil {
		die("protdist: check2SequencesDiff: test not found")
	}
	fmt.Fprintf(&w, "/-- the test of `check2SequencesDiff` -/\ndef diffCheckCond : String := %s\n", leanStr(nodeString(dif.(*ast.IfStmt).Cond)))
	// the call of check2SequencesDiff in MLDist (its arguments)
	call := pdFind(mld, func(n ast.Node) bool {
		ce, ok := n.(*ast.CallExpr)
		return ok && nodeString(ce.Fun) == "check2SequencesDiff"
	})
	if call == nil {
		die("protdist: MLDist no longer calls check2SequencesDiff")
	}
	fmt.Fprintf(&w, "def diffCheckCall : String := %s\n\n", leanStr(nodeString(call)))

	// ---- T1: literals used by MLDist / opt_Dist_F / dist_F_Brent ----------------------------------
	w.WriteString("section\nvariable {α : Type} [RealLike α]\n\n")
	for _, c := range []struct {
		f    *ast.File
		name string
	}{{md, "PROT_DIST_MAX"}, {lk, "BL_MIN"}, {lk, "BL_MAX"}, {lk, "BRENT_ZEPS"}, {lk, "BRENT_CGOLD"}} {
		fmt.Fprintf(&w, "def %s : α := %s\n", c.name, pdRatLean(pdFloatConst(c.f, c.name)))
	}
	// restart value: `init = <lit>` in the `if (init == PROT_DIST_MAX) || (init < .0)` of MLDist
	re := pdFind(mld, func(n ast.Node) bool {
		is, ok := n.(*ast.IfStmt)
		return ok && nodeString(is.Cond) == "(init == PROT_DIST_MAX) || (init < .0)"
	})
	if re == nil {
		die("protdist: MLDist: the restart test `(init == PROT_DIST_MAX) || (init < .0)` was not found")
	}
	rv, ok2 := pdAssigns(re.(*ast.IfStmt).Body, "init")
	bl, ok3 := rv.(*ast.BasicLit)
	if !ok2 || !ok3 {
		die("protdist: MLDist: restart value is not a literal")
	}
	fmt.Fprintf(&w, "/-- `init = %s` when the JC69 distance is saturated or negative -/\ndef mlRestart : α := %s\n", bl.Value, pdRatLean(pdRat(bl, bl.Value)))
	// thresholds on sum
	lo := pdFind(mld, func(n ast.Node) bool {
		is, ok := n.(*ast.IfStmt)
		return ok && strings.HasPrefix(nodeString(is.Cond), "sum < ")
	})
	if lo == nil {
		die("protdist: MLDist: `if sum < …` not found")
	}
	lois := lo.(*ast.IfStmt)
	if nodeString(lois.Cond) != "sum < .001" {
		die("protdist: MLDist: unexpected lower test `%s`", nodeString(lois.Cond))
	}
	missing, ok4 := pdAssigns(lois.Body, "d_max")
	if !ok4 {
		die("protdist: MLDist: the `sum < .001` branch does not assign d_max")
	}
	eli, ok5 := lois.Else.(*ast.IfStmt)
	if !ok5 || nodeString(eli.Cond) != "(sum > 1.-.001) && (sum < 1.+.001)" {
		die("protdist: MLDist: unexpected test on the frequency sum")
	}
	fmt.Fprintf(&w, "def sumLow : α := %s\ndef sumHi1 : α := ((1 : α) - %s)\ndef sumHi2 : α := ((1 : α) + %s)\n",
		pdRatLean(pdRat(lois, ".001")), pdRatLean(pdRat(lois, ".001")), pdRatLean(pdRat(lois, ".001")))
	mt := &pdTr{en: env{}, cells: map[string]string{}, fn: "MLDist"}
	fmt.Fprintf(&w, "/-- `d_max = %s` when the pair's frequency matrix sums to less than .001 -/\ndef mlMissing : α := %s\n", nodeString(missing), mt.expr(missing))
	// opt_Dist_F: the Brent call
	bc := pdFind(optd, func(n ast.Node) bool {
		ce, ok := n.(*ast.CallExpr)
		return ok && nodeString(ce.Fun) == "model.dist_F_Brent"
	})
	if bc == nil {
		die("protdist: opt_Dist_F no longer calls dist_F_Brent")
	}
	bce := bc.(*ast.CallExpr)
	if len(bce.Args) != 7 || nodeString(bce.Args[0]) != "ax" || nodeString(bce.Args[1]) != "bx" || nodeString(bce.Args[2]) != "cx" {
		die("protdist: opt_Dist_F: unexpected arguments of dist_F_Brent")
	}
	tolLit, ok6 := bce.Args[3].(*ast.BasicLit)
	nmax, ok7 := evalInt(bce.Args[4], env{})
	if !ok6 || !ok7 {
		die("protdist: opt_Dist_F: tolerance / iteration cap are not literals")
	}
	fmt.Fprintf(&w, "/-- `tol` passed by opt_Dist_F -/\ndef brentTol : α := %s\n/-- `n_iter_max` passed by opt_Dist_F -/\ndef brentNIterMax : Nat := %d\n\n",
		pdRatLean(pdRat(tolLit, tolLit.Value)), nmax)

	// ---- T2: the JC69 cell -------------------------------------------------------------------------
	emitJC69Cell(&w, findFunc(md, "ProtDistModel", "JC69Dist"), ns)
	w.WriteString("end\nend Gv.Gen.ProtDist\n")
	writeIfChanged(filepath.Join(out, "ProtDist.lean"), w.String())
}
