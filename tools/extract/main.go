// extract: regenerates Lean source (tables, constants, switch classes, structural facts)
// from the *current* working tree of the repository given as argv[1] into the directory argv[2].
//
// T1 of DESIGN.md: every table / constant the theorems talk about is re-read from the Go
// source on every run, so that the theorems are re-checked against what the code says now.
// The extractor is purely syntactic (go/parser + go/ast); anything it does not understand makes
// it fail loudly (exit 2), never skip.
package main

import (
	"fmt"
	"go/ast"
	"go/parser"
	"go/token"
	"os"
	"path/filepath"
	"sort"
	"strconv"
	"strings"
)

var fset = token.NewFileSet()

func die(format string, a ...interface{}) {
	fmt.Fprintf(os.Stderr, "extract: "+format+"\n", a...)
	os.Exit(2)
}

type env map[string]int64

// evalInt evaluates a constant integer expression (char/int literals, identifiers of earlier
// constants, | & + - * << and parentheses, conversions like uint8(x)).
func evalInt(e ast.Expr, en env) (int64, bool) {
	switch x := e.(type) {
	case *ast.BasicLit:
		switch x.Kind {
		case token.INT:
			v, err := strconv.ParseInt(x.Value, 0, 64)
			return v, err == nil
		case token.CHAR:
			s, err := strconv.Unquote(x.Value)
			if err != nil {
				return 0, false
			}
			r := []rune(s)
			if len(r) != 1 {
				return 0, false
			}
			return int64(r[0]), true
		case token.FLOAT:
			f, err := strconv.ParseFloat(x.Value, 64)
			if err != nil || f != float64(int64(f)) {
				return 0, false
			}
			return int64(f), true
		}
	case *ast.Ident:
		v, ok := en[x.Name]
		return v, ok
	case *ast.ParenExpr:
		return evalInt(x.X, en)
	case *ast.UnaryExpr:
		v, ok := evalInt(x.X, en)
		if !ok {
			return 0, false
		}
		switch x.Op {
		case token.SUB:
			return -v, true
		case token.ADD:
			return v, true
		}
	case *ast.BinaryExpr:
		a, ok1 := evalInt(x.X, en)
		b, ok2 := evalInt(x.Y, en)
		if !ok1 || !ok2 {
			return 0, false
		}
		switch x.Op {
		case token.OR:
			return a | b, true
		case token.AND:
			return a & b, true
		case token.ADD:
			return a + b, true
		case token.SUB:
			return a - b, true
		case token.MUL:
			return a * b, true
		case token.SHL:
			return a << uint(b), true
		}
	case *ast.CallExpr:
		if id, ok := x.Fun.(*ast.Ident); ok && len(x.Args) == 1 {
			switch id.Name {
			case "uint8", "int", "rune", "byte", "int64", "float64":
				return evalInt(x.Args[0], en)
			}
		}
	}
	return 0, false
}

func parseFile(path string) *ast.File {
	f, err := parser.ParseFile(fset, path, nil, parser.ParseComments)
	if err != nil {
		die("parse %s: %v", path, err)
	}
	return f
}

// collectConsts adds all integer-valued constants of the file to en (and returns names in order).
func collectConsts(f *ast.File, en env) []string {
	names := []string{}
	for _, d := range f.Decls {
		gd, ok := d.(*ast.GenDecl)
		if !ok || gd.Tok != token.CONST {
			continue
		}
		for _, sp := range gd.Specs {
			vs := sp.(*ast.ValueSpec)
			for i, n := range vs.Names {
				if i >= len(vs.Values) {
					continue
				}
				if v, ok := evalInt(vs.Values[i], en); ok {
					en[n.Name] = v
					names = append(names, n.Name)
				}
			}
		}
	}
	return names
}

func findVar(f *ast.File, name string) ast.Expr {
	for _, d := range f.Decls {
		gd, ok := d.(*ast.GenDecl)
		if !ok || gd.Tok != token.VAR {
			continue
		}
		for _, sp := range gd.Specs {
			vs := sp.(*ast.ValueSpec)
			for i, n := range vs.Names {
				if n.Name == name && i < len(vs.Values) {
					return vs.Values[i]
				}
			}
		}
	}
	die("variable %s not found", name)
	return nil
}

func findFunc(f *ast.File, recv, name string) *ast.FuncDecl {
	for _, d := range f.Decls {
		fd, ok := d.(*ast.FuncDecl)
		if !ok || fd.Name.Name != name {
			continue
		}
		r := ""
		if fd.Recv != nil && len(fd.Recv.List) == 1 {
			switch t := fd.Recv.List[0].Type.(type) {
			case *ast.StarExpr:
				if id, ok := t.X.(*ast.Ident); ok {
					r = id.Name
				}
			case *ast.Ident:
				r = t.Name
			}
		}
		if r == recv {
			return fd
		}
	}
	die("function %s.%s not found", recv, name)
	return nil
}

func strBytes(e ast.Expr) []int64 {
	bl, ok := e.(*ast.BasicLit)
	if !ok || bl.Kind != token.STRING {
		die("expected string literal at %v", fset.Position(e.Pos()))
	}
	s, err := strconv.Unquote(bl.Value)
	if err != nil {
		die("bad string literal %s", bl.Value)
	}
	out := []int64{}
	for _, b := range []byte(s) {
		out = append(out, int64(b))
	}
	return out
}

func intList(vs []int64) string {
	parts := make([]string, len(vs))
	for i, v := range vs {
		parts[i] = strconv.FormatInt(v, 10)
	}
	return "[" + strings.Join(parts, ", ") + "]"
}

func mustInt(e ast.Expr, en env) int64 {
	v, ok := evalInt(e, en)
	if !ok {
		die("cannot evaluate constant expression at %v", fset.Position(e.Pos()))
	}
	return v
}

func elts(e ast.Expr) []ast.Expr {
	cl, ok := e.(*ast.CompositeLit)
	if !ok {
		die("expected composite literal at %v", fset.Position(e.Pos()))
	}
	return cl.Elts
}

func intElts(e ast.Expr, en env) []int64 {
	out := []int64{}
	for _, x := range elts(e) {
		out = append(out, mustInt(x, en))
	}
	return out
}

// --- emitters ---------------------------------------------------------------------------

func emitMapStrByte(w *strings.Builder, lean string, e ast.Expr, en env) {
	fmt.Fprintf(w, "def %s : List (List UInt8 × UInt8) := [\n", lean)
	es := elts(e)
	for i, x := range es {
		kv := x.(*ast.KeyValueExpr)
		sep := ","
		if i == len(es)-1 {
			sep = ""
		}
		fmt.Fprintf(w, "  (%s, %d)%s\n", intList(strBytes(kv.Key)), mustInt(kv.Value, en), sep)
	}
	fmt.Fprintf(w, "]\n\n")
}

func emitMapByteInt(w *strings.Builder, lean, typ string, e ast.Expr, en env) {
	fmt.Fprintf(w, "def %s : List (UInt8 × %s) := [\n", lean, typ)
	es := elts(e)
	for i, x := range es {
		kv := x.(*ast.KeyValueExpr)
		sep := ","
		if i == len(es)-1 {
			sep = ""
		}
		fmt.Fprintf(w, "  (%d, %d)%s\n", mustInt(kv.Key, en), mustInt(kv.Value, en), sep)
	}
	fmt.Fprintf(w, "]\n\n")
}

func emitMapByteList(w *strings.Builder, lean string, e ast.Expr, en env) {
	fmt.Fprintf(w, "def %s : List (UInt8 × List UInt8) := [\n", lean)
	es := elts(e)
	for i, x := range es {
		kv := x.(*ast.KeyValueExpr)
		sep := ","
		if i == len(es)-1 {
			sep = ""
		}
		fmt.Fprintf(w, "  (%d, %s)%s\n", mustInt(kv.Key, en), intList(intElts(kv.Value, en)), sep)
	}
	fmt.Fprintf(w, "]\n\n")
}

func emitListList(w *strings.Builder, lean, typ string, e ast.Expr, en env) {
	fmt.Fprintf(w, "def %s : List (List %s) := [\n", lean, typ)
	es := elts(e)
	for i, x := range es {
		sep := ","
		if i == len(es)-1 {
			sep = ""
		}
		fmt.Fprintf(w, "  %s%s\n", intList(intElts(x, en)), sep)
	}
	fmt.Fprintf(w, "]\n\n")
}

func emitList(w *strings.Builder, lean, typ string, e ast.Expr, en env) {
	fmt.Fprintf(w, "def %s : List %s := %s\n\n", lean, typ, intList(intElts(e, en)))
}

// switchCases: for the first switch statement inside fn whose cases are constant ints/chars,
// returns per clause the constants and the printed body (canonical one-line rendering of
// assignments `x = const` / `x = true`), default last.
type clause struct {
	vals []int64
	body [][2]string // assigned ident, value
	dflt bool
}

func findSwitch(n ast.Node) *ast.SwitchStmt {
	var res *ast.SwitchStmt
	ast.Inspect(n, func(m ast.Node) bool {
		if res != nil {
			return false
		}
		if s, ok := m.(*ast.SwitchStmt); ok {
			res = s
			return false
		}
		return true
	})
	return res
}

func switchClauses(fd *ast.FuncDecl, en env) []clause {
	sw := findSwitch(fd.Body)
	if sw == nil {
		die("no switch in %s", fd.Name.Name)
	}
	out := []clause{}
	for _, st := range sw.Body.List {
		cc := st.(*ast.CaseClause)
		c := clause{dflt: cc.List == nil}
		for _, e := range cc.List {
			c.vals = append(c.vals, mustInt(e, en))
		}
		for _, b := range cc.Body {
			as, ok := b.(*ast.AssignStmt)
			if !ok || len(as.Lhs) != 1 || len(as.Rhs) != 1 {
				die("unsupported statement in switch of %s at %v", fd.Name.Name, fset.Position(b.Pos()))
			}
			id, ok := as.Lhs[0].(*ast.Ident)
			if !ok {
				die("unsupported lhs in switch of %s", fd.Name.Name)
			}
			val := ""
			if v, ok := evalInt(as.Rhs[0], en); ok {
				val = strconv.FormatInt(v, 10)
			} else if rid, ok := as.Rhs[0].(*ast.Ident); ok {
				val = rid.Name
			} else {
				val = "?" // e.g. fmt.Errorf(...): an error assignment
			}
			c.body = append(c.body, [2]string{id.Name, val})
		}
		out = append(out, c)
	}
	return out
}

// emitAlphabetClasses: the three DetectAlphabet copies. Emits lists nt+aa / nt-only / aa-only.
func emitAlphabetClasses(w *strings.Builder, lean string, fd *ast.FuncDecl, en env) {
	both, nt, aa := []int64{}, []int64{}, []int64{}
	for _, c := range switchClauses(fd, en) {
		isnt, isaa := false, false
		for _, b := range c.body {
			if b[0] == "couldbent" && b[1] == "true" {
				isnt = true
			} else if b[0] == "couldbeaa" && b[1] == "true" {
				isaa = true
			} else {
				die("unexpected assignment %v in %s", b, fd.Name.Name)
			}
		}
		if c.dflt {
			if isnt || isaa {
				die("default clause of %s assigns", fd.Name.Name)
			}
			continue
		}
		switch {
		case isnt && isaa:
			both = append(both, c.vals...)
		case isnt:
			nt = append(nt, c.vals...)
		case isaa:
			aa = append(aa, c.vals...)
		}
	}
	fmt.Fprintf(w, "def %s_both : List UInt8 := %s\n", lean, intList(both))
	fmt.Fprintf(w, "def %s_nt : List UInt8 := %s\n", lean, intList(nt))
	fmt.Fprintf(w, "def %s_aa : List UInt8 := %s\n\n", lean, intList(aa))
}

// emitIndexSwitch: Nt2Index / AA2Index: list of (char, idx)
func emitIndexSwitch(w *strings.Builder, lean string, fd *ast.FuncDecl, en env) {
	fmt.Fprintf(w, "def %s : List (UInt8 × Nat) := [", lean)
	first := true
	for _, c := range switchClauses(fd, en) {
		if c.dflt {
			continue
		}
		if len(c.body) != 1 || c.body[0][0] != "idx" {
			die("unexpected body in %s", fd.Name.Name)
		}
		for _, v := range c.vals {
			if !first {
				fmt.Fprintf(w, ", ")
			}
			first = false
			fmt.Fprintf(w, "(%d, %s)", v, c.body[0][1])
		}
	}
	fmt.Fprintf(w, "]\n\n")
}

func writeIfChanged(path, content string) {
	old, err := os.ReadFile(path)
	if err == nil && string(old) == content {
		return
	}
	if err := os.MkdirAll(filepath.Dir(path), 0o755); err != nil {
		die("%v", err)
	}
	if err := os.WriteFile(path, []byte(content), 0o644); err != nil {
		die("%v", err)
	}
}

func main() {
	if len(os.Args) != 3 {
		die("usage: extract <repo> <outdir>")
	}
	repo, out := os.Args[1], os.Args[2]

	var w strings.Builder
	w.WriteString("-- GENERATED by tools/extract from the repository working tree. Do not edit.\n")
	w.WriteString("namespace Gv.Gen\n\n")

	en := env{}
	cf := parseFile(filepath.Join(repo, "align/const.go"))
	names := collectConsts(cf, en)
	// further constant files
	for _, p := range []string{"io/fasta/writer.go", "io/phylip/writer.go", "io/clustal/writer.go",
		"distance/dna/distance.go", "distance/dna/rawdist.go"} {
		f := parseFile(filepath.Join(repo, p))
		names = append(names, collectConsts(f, en)...)
	}
	sort.Strings(names)
	seen := map[string]bool{}
	for _, n := range names {
		if seen[n] {
			continue
		}
		seen[n] = true
		fmt.Fprintf(&w, "def c_%s : Int := %d\n", n, en[n])
	}
	w.WriteString("\n")

	emitMapStrByte(&w, "standardcode", findVar(cf, "standardcode"), en)
	emitMapStrByte(&w, "vertebratemitocode", findVar(cf, "vertebratemitocode"), en)
	emitMapStrByte(&w, "invertebratemitocode", findVar(cf, "invertebratemitocode"), en)
	emitMapByteInt(&w, "complement_nuc_mapping", "UInt8", findVar(cf, "complement_nuc_mapping"), en)
	emitMapByteInt(&w, "iupacToInt", "UInt8", findVar(cf, "iupacToInt"), en)
	emitMapByteInt(&w, "dna_to_matrix_pos", "Nat", findVar(cf, "dna_to_matrix_pos"), en)
	emitMapByteInt(&w, "prot_to_matrix_pos", "Nat", findVar(cf, "prot_to_matrix_pos"), en)
	emitMapByteList(&w, "IupacCode", findVar(cf, "IupacCode"), en)
	emitListList(&w, "iupacCodeByte", "UInt8", findVar(cf, "iupacCodeByte"), en)
	emitListList(&w, "strongGroups", "UInt8", findVar(cf, "strongGroups"), en)
	emitListList(&w, "weakGroups", "UInt8", findVar(cf, "weakGroups"), en)
	emitListList(&w, "dnafull_subst_matrix", "Int", findVar(cf, "dnafull_subst_matrix"), en)
	emitListList(&w, "blosum62_subst_matrix", "Int", findVar(cf, "blosum62_subst_matrix"), en)
	emitList(&w, "stdaminoacid", "UInt8", findVar(cf, "stdaminoacid"), en)
	emitList(&w, "stdnucleotides", "UInt8", findVar(cf, "stdnucleotides"), en)
	emitIndexSwitch(&w, "nt2index", findFunc(cf, "", "Nt2Index"), en)
	emitIndexSwitch(&w, "aa2index", findFunc(cf, "", "AA2Index"), en)

	// geneticCode dispatch: which table each code constant selects
	{
		fd := findFunc(cf, "", "geneticCode")
		fmt.Fprintf(&w, "def geneticCodeDispatch : List (Int × String) := [")
		first := true
		for _, c := range switchClauses(fd, en) {
			if c.dflt {
				continue
			}
			for _, v := range c.vals {
				if !first {
					w.WriteString(", ")
				}
				first = false
				fmt.Fprintf(&w, "(%d, \"%s\")", v, c.body[0][1])
			}
		}
		w.WriteString("]\n\n")
	}

	sf := parseFile(filepath.Join(repo, "align/sequence.go"))
	bf := parseFile(filepath.Join(repo, "align/seqbag.go"))
	emitAlphabetClasses(&w, "alpha_seq", findFunc(sf, "seq", "DetectAlphabet"), en)
	emitAlphabetClasses(&w, "alpha_bag", findFunc(bf, "seqbag", "DetectAlphabet"), en)
	emitAlphabetClasses(&w, "alpha_str", findFunc(bf, "", "DetectAlphabet"), en)

	w.WriteString("end Gv.Gen\n")
	writeIfChanged(filepath.Join(out, "Tables.lean"), w.String())
	emitRngTab(out)

	// T2: regenerated straight-line numeric code (numeric.go + one table file per property)
	emitNumericModels(repo, out)

	// T3: structural concurrency facts (facts.go)
	emitFacts(repo, out)

	// T2 (C07): straight-line float code of distance/dna
	emitNumericDist(repo, out, en)

	// T3 (C19): mutation facts (mutfacts.go)
	emitMutFacts(repo, out)

	// T1/T2/T3 (C17): constants, JC69 cell and variant facts of distance/protein (protdist.go)
	emitProtDist(repo, out, en)
}
