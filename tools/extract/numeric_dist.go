// T2 of DESIGN.md for property C07: the straight-line float code of distance/dna — the `Distance`
// methods and the `InitModel` parameter formulas of jc, k2p, f81, f84, tn93, pdist, rawdist — is
// translated from the *current* working tree into definitions generic in `[RealLike α]`
// (lean/Gv/Gen/NumericDist.lean).  The same text is evaluated at `Float` by the oracle and
// reasoned about at `ℝ` / `FVal` by lean/Gv/Props/C07.lean.
//
// Supported Go subset (anything else: exit 2, loudly, never skipped):
//
//	float64 locals (`var`, `:=`, `=`, `+= -= *= /=`, simultaneous assignment), `if/else` on
//	comparisons combined with `! && ||`, early `return`, named results, `math.Log/Exp/Pow/Sqrt/Abs`,
//	`math.Inf(±1)`, `math.NaN()`, `math.IsNaN`, reads of receiver fields (become parameters),
//	`m.pi[<literal>]`, `for i := range m.pi` (unrolled: the length is read from `probaNt`),
//	one call of a pair counter whose results become parameters (the call itself is emitted as
//	data so that the hand-written model dispatches on what the source says), and a `switch` on a
//	receiver field whose clauses are exactly such calls.
//
// Decimal literals are emitted as exact ratios of naturals (`.75` ↦ `3/4`): correctly rounded
// division keeps `Float` evaluation bit-identical, and `ring` mis-normalises `OfScientific`
// literals over ℝ in this Mathlib.  `math.Inf(1)` ↦ `1/0`, `math.NaN()` ↦ `0/0` (IEEE values at
// `Float` and `FVal`; never reached on the region where the ℝ theorems speak).
//
// Self-contained on purpose (a sibling translator for models/dna lives in numeric_models.go of
// another branch); only `die`, `fset`, `parseFile`, `findFunc`, `writeIfChanged` of main.go are used.
package main

import (
	"bytes"
	"fmt"
	"go/ast"
	"go/printer"
	"go/token"
	"math/big"
	"path/filepath"
	"strconv"
	"strings"
)

// ---------------------------------------------------------------------------------------------
// expression / statement translator
// ---------------------------------------------------------------------------------------------

type ndTr struct {
	fn      string            // for messages
	recv    string            // receiver identifier
	fields  map[string]string // receiver field (or `pi[2]`) -> Lean parameter
	boolFld map[string]bool   // receiver fields of type bool
	locals  map[string]string // Go identifier -> Lean text (field variables of InitModel, loop indices)
	named   []string          // named float results
	used    map[string]bool   // fields actually read
}

func (t *ndTr) bad(n ast.Node, what string) {
	die("numeric translator (%s): unsupported %s at %v", t.fn, what, fset.Position(n.Pos()))
}

func ndLit(n ast.Node, s string) string {
	if strings.HasPrefix(s, ".") {
		s = "0" + s
	}
	if strings.HasSuffix(s, ".") {
		s = s + "0"
	}
	r, ok := new(big.Rat).SetString(s)
	if !ok || r.Sign() < 0 {
		die("numeric translator: bad literal %q at %v", s, fset.Position(n.Pos()))
	}
	if r.IsInt() {
		return fmt.Sprintf("(%s : α)", r.Num().String())
	}
	return fmt.Sprintf("((%s : α) / (%s : α))", r.Num().String(), r.Denom().String())
}

func ndPrint(n ast.Node) string {
	var b bytes.Buffer
	if err := printer.Fprint(&b, fset, n); err != nil {
		die("printer: %v", err)
	}
	return strings.Join(strings.Fields(b.String()), " ")
}

// fieldKey: `m.alpha` -> "alpha", `m.pi[2]` -> "pi[2]" (index may be a loop variable bound to a literal)
func (t *ndTr) fieldKey(e ast.Expr) (string, bool) {
	switch x := e.(type) {
	case *ast.SelectorExpr:
		if id, ok := x.X.(*ast.Ident); ok && id.Name == t.recv {
			return x.Sel.Name, true
		}
	case *ast.IndexExpr:
		base, ok := t.fieldKey(x.X)
		if !ok {
			return "", false
		}
		switch ix := x.Index.(type) {
		case *ast.BasicLit:
			if ix.Kind == token.INT {
				return base + "[" + ix.Value + "]", true
			}
		case *ast.Ident:
			if v, ok := t.locals["#idx:"+ix.Name]; ok {
				return base + "[" + v + "]", true
			}
		}
	}
	return "", false
}

func (t *ndTr) expr(e ast.Expr) string {
	switch x := e.(type) {
	case *ast.BasicLit:
		if x.Kind == token.INT || x.Kind == token.FLOAT {
			return ndLit(x, x.Value)
		}
	case *ast.Ident:
		if x.Name == "true" || x.Name == "false" {
			return x.Name
		}
		if v, ok := t.locals[x.Name]; ok {
			return v
		}
		return x.Name
	case *ast.ParenExpr:
		return t.expr(x.X)
	case *ast.UnaryExpr:
		switch x.Op {
		case token.SUB:
			return "(-" + t.expr(x.X) + ")"
		case token.ADD:
			return t.expr(x.X)
		case token.NOT:
			return "(!" + t.expr(x.X) + ")"
		}
	case *ast.BinaryExpr:
		a, b := t.expr(x.X), t.expr(x.Y)
		switch x.Op {
		case token.ADD, token.SUB, token.MUL, token.QUO:
			return "(" + a + " " + x.Op.String() + " " + b + ")"
		case token.GTR:
			return "(RealLike.ltb " + b + " " + a + ")"
		case token.LSS:
			return "(RealLike.ltb " + a + " " + b + ")"
		case token.GEQ:
			return "(RealLike.leb " + b + " " + a + ")"
		case token.LEQ:
			return "(RealLike.leb " + a + " " + b + ")"
		case token.EQL:
			return "(RealLike.eqb " + a + " " + b + ")"
		case token.NEQ:
			return "(!(RealLike.eqb " + a + " " + b + "))"
		case token.LAND:
			return "(" + a + " && " + b + ")"
		case token.LOR:
			return "(" + a + " || " + b + ")"
		}
	case *ast.SelectorExpr, *ast.IndexExpr:
		if k, ok := t.fieldKey(e); ok {
			if v, ok := t.locals["#fld:"+k]; ok { // InitModel: a field assigned earlier in the body
				return v
			}
			if p, ok := t.fields[k]; ok {
				t.used[k] = true
				return p
			}
			die("numeric translator (%s): receiver field %s is not in the declared parameter list at %v",
				t.fn, k, fset.Position(e.Pos()))
		}
	case *ast.CallExpr:
		if se, ok := x.Fun.(*ast.SelectorExpr); ok {
			if id, ok := se.X.(*ast.Ident); ok && id.Name == "math" {
				args := []string{}
				for _, a := range x.Args {
					args = append(args, t.expr(a))
				}
				un := map[string]string{"Log": "RealLike.log", "Exp": "RealLike.exp", "Sqrt": "RealLike.sqrt", "Abs": "RealLike.abs"}
				switch {
				case un[se.Sel.Name] != "" && len(args) == 1:
					return "(" + un[se.Sel.Name] + " " + args[0] + ")"
				case se.Sel.Name == "Pow" && len(args) == 2:
					return "(RealLike.pow " + args[0] + " " + args[1] + ")"
				case se.Sel.Name == "NaN" && len(args) == 0:
					return "((0 : α) / (0 : α))"
				case se.Sel.Name == "IsNaN" && len(args) == 1:
					return "(!(RealLike.eqb " + args[0] + " " + args[0] + "))"
				case se.Sel.Name == "Inf" && len(args) == 1:
					s := ndPrint(x.Args[0])
					if s == "1" || s == "+1" {
						return "((1 : α) / (0 : α))"
					}
					if s == "-1" {
						return "((-(1 : α)) / (0 : α))"
					}
				}
			}
		}
		if id, ok := x.Fun.(*ast.Ident); ok && id.Name == "float64" && len(x.Args) == 1 {
			return t.expr(x.Args[0])
		}
	}
	t.bad(e, fmt.Sprintf("expression %T `%s`", e, ndPrint(e)))
	return ""
}

func ndHasReturn(stmts []ast.Stmt) bool {
	found := false
	for _, s := range stmts {
		ast.Inspect(s, func(n ast.Node) bool {
			if _, ok := n.(*ast.ReturnStmt); ok {
				found = true
			}
			return !found
		})
	}
	return found
}

// ndAssigned: identifiers assigned with `=`/op-assign anywhere in stmts (not the ones introduced by `:=`
// or `var` inside stmts, which are scoped to the branch)
func ndAssigned(stmts []ast.Stmt) []string {
	seen, local := map[string]bool{}, map[string]bool{}
	var out []string
	for _, s := range stmts {
		ast.Inspect(s, func(n ast.Node) bool {
			switch x := n.(type) {
			case *ast.AssignStmt:
				for _, l := range x.Lhs {
					if id, ok := l.(*ast.Ident); ok && id.Name != "_" {
						if x.Tok == token.DEFINE {
							local[id.Name] = true
						} else if !seen[id.Name] && !local[id.Name] {
							seen[id.Name] = true
							out = append(out, id.Name)
						}
					}
				}
			case *ast.ValueSpec:
				for _, id := range x.Names {
					local[id.Name] = true
				}
			}
			return true
		})
	}
	return out
}

func (t *ndTr) lhsName(e ast.Expr) string {
	if id, ok := e.(*ast.Ident); ok {
		return id.Name
	}
	if k, ok := t.fieldKey(e); ok {
		if _, isInit := t.locals["#init"]; isInit {
			nm := "m_" + strings.NewReplacer("[", "_", "]", "").Replace(k)
			t.locals["#fld:"+k] = nm
			return nm
		}
	}
	t.bad(e, "assignment target `"+ndPrint(e)+"`")
	return ""
}

// block translates a statement list into a Lean term; `cont` produces what follows the list.
func (t *ndTr) block(stmts []ast.Stmt, ind string, cont func(ind string) string) string {
	if len(stmts) == 0 {
		return cont(ind)
	}
	s, rest := stmts[0], stmts[1:]
	next := func(ind string) string { return t.block(rest, ind, cont) }
	switch x := s.(type) {
	case *ast.DeclStmt:
		gd, ok := x.Decl.(*ast.GenDecl)
		if !ok || gd.Tok != token.VAR {
			t.bad(s, "declaration")
		}
		var b strings.Builder
		for _, sp := range gd.Specs {
			vs := sp.(*ast.ValueSpec)
			if id, ok := vs.Type.(*ast.Ident); !ok || id.Name != "float64" || len(vs.Values) != 0 {
				t.bad(s, "var declaration (only `var x, y float64`)")
			}
			for _, n := range vs.Names {
				fmt.Fprintf(&b, "%slet %s := (0 : α);\n", ind, n.Name)
			}
		}
		return b.String() + next(ind)
	case *ast.AssignStmt:
		var b strings.Builder
		if len(x.Lhs) != len(x.Rhs) {
			t.bad(s, "assignment `"+ndPrint(s)+"`")
		}
		if len(x.Lhs) > 1 {
			if x.Tok != token.ASSIGN && x.Tok != token.DEFINE {
				t.bad(s, "assignment operator")
			}
			for i := range x.Lhs {
				fmt.Fprintf(&b, "%slet tmp%d := %s;\n", ind, i, t.expr(x.Rhs[i]))
			}
			for i, l := range x.Lhs {
				fmt.Fprintf(&b, "%slet %s := tmp%d;\n", ind, t.lhsName(l), i)
			}
			return b.String() + next(ind)
		}
		rhs := t.expr(x.Rhs[0])
		var cur string
		if x.Tok != token.ASSIGN && x.Tok != token.DEFINE {
			cur = t.expr(x.Lhs[0])
		}
		name := t.lhsName(x.Lhs[0])
		switch x.Tok {
		case token.ASSIGN, token.DEFINE:
		case token.ADD_ASSIGN:
			rhs = "(" + cur + " + " + rhs + ")"
		case token.SUB_ASSIGN:
			rhs = "(" + cur + " - " + rhs + ")"
		case token.MUL_ASSIGN:
			rhs = "(" + cur + " * " + rhs + ")"
		case token.QUO_ASSIGN:
			rhs = "(" + cur + " / " + rhs + ")"
		default:
			t.bad(s, "assignment operator "+x.Tok.String())
		}
		fmt.Fprintf(&b, "%slet %s := %s;\n", ind, name, rhs)
		return b.String() + next(ind)
	case *ast.ReturnStmt:
		switch {
		case len(x.Results) == 0 && len(t.named) > 0:
			return ind + t.named[0] + "\n"
		case len(x.Results) == 2 && ndPrint(x.Results[1]) == "nil":
			return ind + t.expr(x.Results[0]) + "\n"
		}
		t.bad(s, "return `"+ndPrint(s)+"`")
	case *ast.BlockStmt:
		return t.block(append(append([]ast.Stmt{}, x.List...), rest...), ind, cont)
	case *ast.IfStmt:
		if x.Init != nil {
			t.bad(s, "if with init statement")
		}
		thenS := x.Body.List
		var elseS []ast.Stmt
		switch e := x.Else.(type) {
		case nil:
		case *ast.BlockStmt:
			elseS = e.List
		case *ast.IfStmt:
			elseS = []ast.Stmt{e}
		default:
			t.bad(s, "else")
		}
		cond := t.expr(x.Cond)
		if ndHasReturn(thenS) || ndHasReturn(elseS) {
			// a branch may leave the function: the continuation is copied into both branches
			return fmt.Sprintf("%sif %s then\n%s%selse\n%s", ind, cond,
				t.block(thenS, ind+"  ", next), ind, t.block(elseS, ind+"  ", next))
		}
		vs := ndAssigned(append(append([]ast.Stmt{}, thenS...), elseS...))
		if len(vs) == 0 {
			t.bad(s, "if without effect")
		}
		tuple := vs[0]
		if len(vs) > 1 {
			tuple = "(" + strings.Join(vs, ", ") + ")"
		}
		fin := func(ind string) string { return ind + tuple + "\n" }
		return fmt.Sprintf("%slet %s := (if %s then\n%s%selse\n%s%s);\n%s", ind, tuple, cond,
			t.block(thenS, ind+"  ", fin), ind, t.block(elseS, ind+"  ", fin), ind, next(ind))
	case *ast.RangeStmt:
		// for i := range m.pi { ... }  — unrolled over the fixed length of the field
		key, ok := x.Key.(*ast.Ident)
		fk, ok2 := t.fieldKey(x.X)
		n, ok3 := ndFixedLen[fk]
		if !ok || !ok2 || !ok3 || x.Value != nil || x.Tok != token.DEFINE {
			t.bad(s, "range loop (only `for i := range m.<fixed-size field>`)")
		}
		if ndHasReturn(x.Body.List) {
			t.bad(s, "return inside a loop")
		}
		var b strings.Builder
		for k := 0; k < n; k++ {
			t.locals["#idx:"+key.Name] = strconv.Itoa(k)
			b.WriteString(t.block(x.Body.List, ind, func(string) string { return "" }))
		}
		delete(t.locals, "#idx:"+key.Name)
		return b.String() + next(ind)
	}
	t.bad(s, fmt.Sprintf("statement %T `%s`", s, ndPrint(s)))
	return ""
}

// ---------------------------------------------------------------------------------------------
// what is translated
// ---------------------------------------------------------------------------------------------

// length of the fixed-size slices held in receiver fields (read from `probaNt`: `pi := make([]float64, 4)`)
var ndFixedLen = map[string]int{}

// the pair counters whose results are parameters of the generated estimators
var ndCounters = map[string]int{ // name -> number of results
	"countDiffs": 2, "countDiffsWithGaps": 2, "countDiffsWithInternalGaps": 2, "countMutations": 5,
}

type ndModel struct {
	file, typ, lean string
	fields          []string // float receiver fields that `Distance` may read, in parameter order
	boolFields      []string
	initOut         []string // float fields computed by InitModel's numeric part (in output order)
	initIn          []string // fields InitModel's numeric part may read
	needGamma       bool     // InitModel must store gamma and alpha
}

var ndPi = []string{"pi[0]", "pi[1]", "pi[2]", "pi[3]"}

var ndModels = []ndModel{
	{"jc.go", "JCModel", "jc", []string{"alpha"}, []string{"gamma"}, nil, nil, true},
	{"k2p.go", "K2PModel", "k2p", []string{"alpha"}, []string{"gamma"}, nil, nil, true},
	{"f81.go", "F81Model", "f81", []string{"alpha", "b1"}, []string{"gamma"}, []string{"b1"}, ndPi, true},
	{"f84.go", "F84Model", "f84", []string{"alpha", "a", "b", "c"}, []string{"gamma"}, []string{"a", "b", "c"}, ndPi, true},
	{"tn93.go", "TN93Model", "tn93", append([]string{"alpha"}, ndPi...), []string{"gamma"}, nil, ndPi, true},
	{"pdist.go", "PDistModel", "pdist", nil, nil, nil, nil, false},
	{"rawdist.go", "RawDistModel", "rawdist", nil, nil, nil, nil, false},
}

func ndParam(k string) string {
	return "m_" + strings.NewReplacer("[", "_", "]", "").Replace(k)
}

func ndRecvName(fd *ast.FuncDecl) string {
	if fd.Recv == nil || len(fd.Recv.List) != 1 || len(fd.Recv.List[0].Names) != 1 {
		die("numeric translator: %s has no named receiver", fd.Name.Name)
	}
	return fd.Recv.List[0].Names[0].Name
}

// counterCall: `a, b = countX(args...)` -> lhs names, callee, printed args
func ndCounterCall(s ast.Stmt) (lhs []string, callee string, args []string, ok bool) {
	as, isAs := s.(*ast.AssignStmt)
	if !isAs || len(as.Rhs) != 1 {
		return
	}
	call, isCall := as.Rhs[0].(*ast.CallExpr)
	if !isCall {
		return
	}
	id, isId := call.Fun.(*ast.Ident)
	if !isId {
		return
	}
	n, known := ndCounters[id.Name]
	if !known {
		return
	}
	if len(as.Lhs) != n {
		die("numeric translator: %s returns %d values, %d assigned at %v", id.Name, n, len(as.Lhs), fset.Position(s.Pos()))
	}
	for _, l := range as.Lhs {
		li, isI := l.(*ast.Ident)
		if !isI {
			die("numeric translator: counter result assigned to a non-identifier at %v", fset.Position(s.Pos()))
		}
		lhs = append(lhs, li.Name)
	}
	for _, a := range call.Args {
		args = append(args, ndPrint(a))
	}
	return lhs, id.Name, args, true
}

func leanStrList(l []string) string {
	q := make([]string, len(l))
	for i, s := range l {
		q[i] = strconv.Quote(s)
	}
	return "[" + strings.Join(q, ", ") + "]"
}

// emitDistance translates `func (m *T) Distance(seq1, seq2 []uint8, weights []float64) (float64, error)`
func ndEmitDistance(w *strings.Builder, repo string, m ndModel, en env) {
	path := filepath.Join(repo, "distance/dna", m.file)
	f := parseFile(path)
	fd := findFunc(f, m.typ, "Distance")
	t := &ndTr{fn: m.typ + ".Distance", recv: ndRecvName(fd), fields: map[string]string{}, boolFld: map[string]bool{},
		locals: map[string]string{}, used: map[string]bool{}}
	for _, k := range m.fields {
		t.fields[k] = ndParam(k)
	}
	for _, k := range m.boolFields {
		t.fields[k] = ndParam(k)
		t.boolFld[k] = true
	}
	// named results
	if fd.Type.Results == nil || len(fd.Type.Results.List) < 1 {
		die("numeric translator: %s has no results", t.fn)
	}
	for _, r := range fd.Type.Results.List {
		if id, ok := r.Type.(*ast.Ident); ok && id.Name == "float64" {
			for _, n := range r.Names {
				t.named = append(t.named, n.Name)
			}
		}
	}
	// locate the counter call (plain, or dispatched by a switch on a receiver field)
	var params, lhsAll []string
	var calls [][2]string // tag, lean list of call words
	switchOn := ""
	body := []ast.Stmt{}
	found := false
	for _, s := range fd.Body.List {
		if lhs, callee, args, ok := ndCounterCall(s); ok {
			if found {
				die("numeric translator (%s): more than one counter call", t.fn)
			}
			found = true
			lhsAll = lhs
			for _, l := range lhs {
				if l != "_" {
					params = append(params, l)
				}
			}
			calls = append(calls, [2]string{"", leanStrList(append([]string{callee}, args...))})
			continue
		}
		if sw, ok := s.(*ast.SwitchStmt); ok {
			if found || sw.Init != nil || sw.Tag == nil {
				die("numeric translator (%s): unsupported switch at %v", t.fn, fset.Position(s.Pos()))
			}
			found = true
			switchOn = ndPrint(sw.Tag)
			var lhs0 []string
			for _, cs := range sw.Body.List {
				cc := cs.(*ast.CaseClause)
				if len(cc.Body) != 1 {
					die("numeric translator (%s): switch clause is not a single counter call at %v", t.fn, fset.Position(cc.Pos()))
				}
				lhs, callee, args, ok := ndCounterCall(cc.Body[0])
				if !ok {
					die("numeric translator (%s): switch clause is not a counter call at %v", t.fn, fset.Position(cc.Pos()))
				}
				if lhs0 == nil {
					lhs0 = lhs
				} else if strings.Join(lhs0, ",") != strings.Join(lhs, ",") {
					die("numeric translator (%s): switch clauses assign different variables at %v", t.fn, fset.Position(cc.Pos()))
				}
				words := leanStrList(append([]string{callee}, args...))
				if cc.List == nil {
					calls = append(calls, [2]string{"default", words})
				}
				for _, e := range cc.List {
					calls = append(calls, [2]string{strconv.FormatInt(mustInt(e, en), 10), words})
				}
			}
			lhsAll = lhs0
			for _, l := range lhs0 {
				if l != "_" {
					params = append(params, l)
				}
			}
			continue
		}
		body = append(body, s)
	}
	if !found {
		die("numeric translator (%s): no counter call found", t.fn)
	}
	// a `var total float64` that is later bound by the counter call must not shadow the parameter
	isParam := map[string]bool{}
	for _, p := range params {
		isParam[p] = true
	}
	filtered := []ast.Stmt{}
	for _, s := range body {
		if ds, ok := s.(*ast.DeclStmt); ok {
			gd := ds.Decl.(*ast.GenDecl)
			keep := true
			for _, sp := range gd.Specs {
				if vs, ok := sp.(*ast.ValueSpec); ok {
					all := true
					for _, n := range vs.Names {
						if !isParam[n.Name] {
							all = false
						}
					}
					if all {
						keep = false
					} else {
						for _, n := range vs.Names {
							if isParam[n.Name] {
								die("numeric translator (%s): mixed var declaration at %v", t.fn, fset.Position(s.Pos()))
							}
						}
					}
				}
			}
			if !keep {
				continue
			}
		}
		filtered = append(filtered, s)
	}
	text := t.block(filtered, "  ", func(ind string) string {
		die("numeric translator (%s): control reaches the end of the function without return", t.fn)
		return ""
	})
	fmt.Fprintf(w, "/-- generated from distance/dna/%s `(%s).Distance`; parameters: receiver fields, then the\nresults of the counter call -/\n", m.file, m.typ)
	fmt.Fprintf(w, "def %sDistance", m.lean)
	for _, k := range m.boolFields {
		fmt.Fprintf(w, " (%s : Bool)", ndParam(k))
	}
	for _, k := range m.fields {
		fmt.Fprintf(w, " (%s : α)", ndParam(k))
	}
	for _, p := range params {
		fmt.Fprintf(w, " (%s : α)", p)
	}
	fmt.Fprintf(w, " : α :=\n%s\n", text)
	fmt.Fprintf(w, "/-- the counter call(s) of `(%s).Distance` as written in the source: (switch tag or \"\", callee :: arguments) -/\n", m.typ)
	fmt.Fprintf(w, "def %sCalls : List (String × List String) := [", m.lean)
	for i, c := range calls {
		if i > 0 {
			w.WriteString(", ")
		}
		fmt.Fprintf(w, "(%s, %s)", strconv.Quote(c[0]), c[1])
	}
	fmt.Fprintf(w, "]\ndef %sSwitchOn : String := %s\n", m.lean, strconv.Quote(switchOn))
	fmt.Fprintf(w, "/-- the variables the counter results are bound to (`_`: dropped) -/\n")
	fmt.Fprintf(w, "def %sCounterResults : List String := %s\n\n", m.lean, leanStrList(lhsAll))
}

// statements of InitModel that only move data around (hand-modelled, validated by correspondence);
// compared as canonical printed text
var ndInitStructural = map[string]bool{
	"m.gamma = gamma": true,
	"m.alpha = alpha": true,
	"m.numSites, m.selectedSites = selectedSites(al, weights, m.removegaps)": true,
	"m.sequenceCodes, err = alignmentToCodes(al)":                            true,
	"if m.sequenceCodes, err = alignmentToCodes(al); err != nil { return }":  true,
	"m.pi, err = probaNt(m.sequenceCodes, m.selectedSites, weights)":         true,
	"return": true,
}

func ndEmitInit(w *strings.Builder, repo string, m ndModel) {
	f := parseFile(filepath.Join(repo, "distance/dna", m.file))
	fd := findFunc(f, m.typ, "InitModel")
	t := &ndTr{fn: m.typ + ".InitModel", recv: ndRecvName(fd), fields: map[string]string{}, boolFld: map[string]bool{},
		locals: map[string]string{"#init": "1"}, used: map[string]bool{}}
	if t.recv != "m" {
		die("numeric translator (%s): receiver is not called m", t.fn)
	}
	for _, k := range m.initIn {
		t.fields[k] = ndParam(k)
	}
	numeric := []ast.Stmt{}
	seen := map[string]bool{}
	usesPi := false
	for _, s := range fd.Body.List {
		txt := ndPrint(s)
		if ndInitStructural[txt] {
			seen[txt] = true
			if strings.HasPrefix(txt, "m.pi, err = probaNt") {
				usesPi = true
			}
			continue
		}
		if is, ok := s.(*ast.IfStmt); ok && is.Init == nil && is.Else == nil && ndPrint(is.Cond) == "err == nil" {
			numeric = append(numeric, is.Body.List...)
			continue
		}
		if as, ok := s.(*ast.AssignStmt); ok && len(as.Lhs) == 1 {
			if _, isF := t.fieldKey(as.Lhs[0]); isF {
				numeric = append(numeric, s)
				continue
			}
		}
		die("numeric translator (%s): statement not understood at %v: %s", t.fn, fset.Position(s.Pos()), txt)
	}
	if m.needGamma && !(seen["m.gamma = gamma"] && seen["m.alpha = alpha"]) {
		die("numeric translator (%s): gamma/alpha are no longer stored by InitModel", t.fn)
	}
	if !seen["m.numSites, m.selectedSites = selectedSites(al, weights, m.removegaps)"] {
		die("numeric translator (%s): selectedSites call not found", t.fn)
	}
	if (len(m.initIn) > 0) != usesPi {
		die("numeric translator (%s): use of probaNt changed", t.fn)
	}
	if len(m.initOut) == 0 {
		if len(numeric) != 0 {
			die("numeric translator (%s): unexpected numeric statements", t.fn)
		}
		return
	}
	outs := make([]string, len(m.initOut))
	for i, k := range m.initOut {
		outs[i] = ndParam(k)
	}
	text := t.block(numeric, "  ", func(ind string) string {
		for _, k := range m.initOut {
			if _, ok := t.locals["#fld:"+k]; !ok {
				die("numeric translator (%s): field %s is not computed", t.fn, k)
			}
		}
		if len(outs) == 1 {
			return ind + outs[0] + "\n"
		}
		return ind + "(" + strings.Join(outs, ", ") + ")\n"
	})
	typ := "α"
	for i := 1; i < len(outs); i++ {
		typ += " × α"
	}
	fmt.Fprintf(w, "/-- generated from distance/dna/%s `(%s).InitModel`: the parameters %s from the base frequencies -/\n", m.file, m.typ, strings.Join(m.initOut, ", "))
	fmt.Fprintf(w, "def %sInit", m.lean)
	for _, k := range m.initIn {
		fmt.Fprintf(w, " (%s : α)", ndParam(k))
	}
	fmt.Fprintf(w, " : %s :=\n%s\n", typ, text)
}

// ndProbaLen reads the length of the frequency vector from probaNt (`pi := make([]float64, 4)`) and
// the table ntByteToId
func ndReadDistanceGo(repo string, en env) (piLen int, ntByteToId []int64) {
	f := parseFile(filepath.Join(repo, "distance/dna/distance.go"))
	fd := findFunc(f, "", "probaNt")
	ast.Inspect(fd.Body, func(n ast.Node) bool {
		as, ok := n.(*ast.AssignStmt)
		if !ok || len(as.Lhs) != 1 || len(as.Rhs) != 1 {
			return true
		}
		if id, ok := as.Lhs[0].(*ast.Ident); ok && id.Name == "pi" && ndPrint(as.Rhs[0]) != "" {
			if call, ok := as.Rhs[0].(*ast.CallExpr); ok && len(call.Args) == 2 && ndPrint(call.Fun) == "make" && ndPrint(call.Args[0]) == "[]float64" {
				piLen = int(mustInt(call.Args[1], en))
			}
		}
		return true
	})
	if piLen == 0 {
		die("numeric translator: length of pi not found in probaNt")
	}
	for _, e := range elts(findVar(f, "ntByteToId")) {
		ntByteToId = append(ntByteToId, mustInt(e, en))
	}
	return
}

func emitNumericDist(repo, out string, en env) {
	var w strings.Builder
	w.WriteString("-- GENERATED by tools/extract (numeric_dist.go, tie T2) from distance/dna/*.go of the working tree. Do not edit.\n")
	w.WriteString("import Gv.Num\n")
	w.WriteString("set_option linter.unusedVariables false\n")
	w.WriteString("namespace Gv.Gen\nopen Gv\n\n")
	piLen, tbl := ndReadDistanceGo(repo, en)
	if piLen != 4 {
		die("numeric translator: probaNt builds %d frequencies, the models are written for 4", piLen)
	}
	ndFixedLen["pi"] = piLen
	fmt.Fprintf(&w, "/-- distance/dna/distance.go `ntByteToId` (index in pi of a one-base IUPAC bit code, -1: none) -/\n")
	fmt.Fprintf(&w, "def ntByteToId : List Int := %s\n\n", intList(tbl))
	w.WriteString("section\nvariable {α : Type} [RealLike α]\n\n")
	for _, m := range ndModels {
		ndEmitDistance(&w, repo, m, en)
		ndEmitInit(&w, repo, m)
	}
	w.WriteString("end\nend Gv.Gen\n")
	writeIfChanged(filepath.Join(out, "NumericDist.lean"), w.String())
}
