package main

import (
	"fmt"

	"github.com/evolbioinfo/goalign/align"
)

// C16: the aligner behind phasing --------------------------------------------------------------
//
// atgalign <den> <gapopen|d> <gapext|d> <match|_> <mismatch|_> <seq1> <seq2>
//
//	NewPwAligner(seq1, seq2, ALIGN_ALGO_ATG) + setters (as alignAgainstRefsNT does) + Alignment().
//	Scores are integer numerators over <den> (a power of two), `d` = keep the constructor default,
//	`_ _` = no SetScore (built-in matrix).
//	-> ok v=<variant> sc=<score*den> st=<s1>,<s2> en=<e1>,<e2> len= nm= mis= gap= r1= r2= unmod=<0|1>
//	   err v=<variant> | panic v=<variant>
//
// phasent1 <den> <gapopen|d> <gapext|d> <match|_> <mismatch|_> <reverse> <cutend> <code> <orfs> <seq>
//
//	Phaser in nucleotide mode (SetTranslate(false, code)), one worker, ONE input sequence named s0.
//	-> ok v=<variant> <pos>|<removed 0/1>|<nt>|<codon>|<aa>    one result (length / match cut-offs disabled:
//	                                              `removed` = no alignment with a positive score)
//	   ERR v=<variant>                            the result carries an error
//	   err v=<variant>                            Phase() itself returned an error
//	A panic of the worker goroutine kills the harness process: the driver reports `exit:2`.
//
// phaseaa1 <den> <gapopen|d> <gapext|d> <match|_> <mismatch|_> <reverse> <cutend> <code> <orfs> <seq>
//
//	The twin of phasent1 for the amino-acid mode (SetTranslate(true, code), the default of `goalign phase`):
//	the reference ORFs are passed as NUCLEOTIDE sequences, Phase() translates them (frame 0) before
//	alignAgainstRefsAA aligns them with the 3 (6 with <reverse>) translations of the sequence.  Same answers.
func atgScores(al interface {
	SetGapOpenScore(float64)
	SetGapExtendScore(float64)
	SetScore(float64, float64)
}, a []string) {
	den := float64(atoi(a[0]))
	if a[1] != "d" {
		al.SetGapOpenScore(float64(atoi(a[1])) / den)
	}
	if a[2] != "d" {
		al.SetGapExtendScore(float64(atoi(a[2])) / den)
	}
	if a[3] != "_" {
		al.SetScore(float64(atoi(a[3]))/den, float64(atoi(a[4]))/den)
	}
}

func opAtgAlign(a []string) (res string) {
	v := swProbe()
	den := float64(atoi(a[0]))
	in1, in2 := swSeq(a[5]), swSeq(a[6])
	defer func() {
		if r := recover(); r != nil {
			res = fmt.Sprintf("panic v=%d", v)
		}
	}()
	seq1 := align.NewSequence("s1", []uint8(in1), "c1")
	seq2 := align.NewSequence("s2", []uint8(in2), "c2")
	al := align.NewPwAligner(seq1, seq2, align.ALIGN_ALGO_ATG)
	atgScores(al, a)
	if _, err := al.Alignment(); err != nil {
		return fmt.Sprintf("err v=%d", v)
	}
	s1, s2 := al.AlignStarts()
	e1, e2 := al.AlignEnds()
	unmod := seq1.Sequence() == in1 && seq2.Sequence() == in2
	return fmt.Sprintf("ok v=%d sc=%s st=%d,%d en=%d,%d len=%d nm=%d mis=%d gap=%d r1=%s r2=%s unmod=%s",
		v, swScore(al.MaxScore()*den), s1, s2, e1, e2, al.Length(), al.NbMatches(), al.NbMisMatches(), al.NbGaps(),
		swEnc(al.Seq1Ali()), swEnc(al.Seq2Ali()), btoa(unmod))
}

func opPhaseNT1(a []string) string { return phaseOne(a, false) }

func opPhaseAA1(a []string) string { return phaseOne(a, true) }

func phaseOne(a []string, translate bool) string {
	v := swProbe()
	den := float64(atoi(a[0]))
	ph := align.NewPhaser()
	ph.SetCpus(1)
	ph.SetLenCutoff(-1.0)
	ph.SetMatchCutoff(-1.0)
	ph.SetReverse(atob(a[5]))
	ph.SetCutEnd(atob(a[6]))
	if err := ph.SetTranslate(translate, atoi(a[7])); err != nil {
		return fmt.Sprintf("err-code v=%d", v)
	}
	if a[1] != "d" {
		ph.SetGapOpen(float64(atoi(a[1])) / den)
	}
	if a[2] != "d" {
		ph.SetGapExtend(float64(atoi(a[2])) / den)
	}
	if a[3] != "_" {
		ph.SetAlignScores(float64(atoi(a[3]))/den, float64(atoi(a[4]))/den)
	}
	orfs := mkBag(align.UNKNOWN, decRows(a[8]))
	orfs.AutoAlphabet()
	seqs := align.NewSeqBag(align.NUCLEOTIDS)
	seqs.AddSequence("s0", swSeq(a[9]), "")
	ch, err := ph.Phase(orfs, seqs)
	if err != nil {
		return fmt.Sprintf("err v=%d", v)
	}
	out := ""
	n := 0
	for p := range ch {
		n++
		if p.Err != nil {
			out = fmt.Sprintf("ERR v=%d", v)
			continue
		}
		out = fmt.Sprintf("ok v=%d %d|%s|%s|%s|%s", v, p.Position, btoa(p.Removed), swEnc([]uint8(seqStr(p.NtSeq))),
			swEnc([]uint8(seqStr(p.CodonSeq))), swEnc([]uint8(seqStr(p.AaSeq))))
	}
	if n != 1 {
		return fmt.Sprintf("count=%d v=%d", n, v)
	}
	return out
}

func init() {
	register("atgalign", opAtgAlign)
	register("phasent1", opPhaseNT1)
	register("phaseaa1", opPhaseAA1)
}
