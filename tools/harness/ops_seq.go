package main

import (
	"github.com/evolbioinfo/goalign/align"
)

func okErr(err error, payload string) string {
	if err != nil {
		return "err " + payload
	}
	return "ok " + payload
}

func init() {
	// C06 ------------------------------------------------------------------------------
	// revcomp <alphabet> <rows>  : SeqBag.ReverseComplement, state reported in both cases
	register("revcomp", func(a []string) string {
		sb := mkBag(atoi(a[0]), decRows(a[1]))
		err := sb.ReverseComplement()
		return okErr(err, encRows(rowsOf(sb)))
	})
	// revcompsub <alphabet> <rows> <names>
	register("revcompsub", func(a []string) string {
		sb := mkBag(atoi(a[0]), decRows(a[1]))
		err := sb.ReverseComplementSequences(strs(a[2])...)
		return okErr(err, encRows(rowsOf(sb)))
	})
	register("toupper", func(a []string) string {
		sb := mkBag(align.UNKNOWN, decRows(a[0]))
		sb.ToUpper()
		return encRows(rowsOf(sb))
	})
	register("tolower", func(a []string) string {
		sb := mkBag(align.UNKNOWN, decRows(a[0]))
		sb.ToLower()
		return encRows(rowsOf(sb))
	})
	// casehex <up|low> <hex bytes>: ToUpper / ToLower on one row of arbitrary bytes (a byte >= 0x80 is outside the residue
	// alphabets; the row must still keep its length and its ASCII positions may change in letter case only)
	register("casehex", func(a []string) string {
		sb := align.NewSeqBag(align.UNKNOWN)
		if err := sb.AddSequenceChar("s", []uint8(unhex(a[1])), ""); err != nil {
			return "err"
		}
		if a[0] == "up" {
			sb.ToUpper()
		} else {
			sb.ToLower()
		}
		out, _ := sb.GetSequenceCharById(0)
		return hexs(out)
	})
	register("unalign", func(a []string) string {
		sb := mkBag(align.UNKNOWN, decRows(a[0]))
		return encRows(rowsOf(sb.Unalign()))
	})
	// same three on an alignment object (the methods are promoted from seqbag, but Unalign of an
	// alignment must still return every row)
	register("unalign_al", func(a []string) string {
		al, err := mkAlign(align.UNKNOWN, decRows(a[0]))
		if err != nil {
			return "err-build"
		}
		return encRows(rowsOf(al.Unalign()))
	})
	register("detectalpha", func(a []string) string {
		s := align.NewSequence("s", []uint8(a[0]), "")
		return itoa(s.DetectAlphabet())
	})

	// C05 ------------------------------------------------------------------------------
	// translate <phase> <code> <seq>  : Sequence.Translate
	register("translate", func(a []string) string {
		s := align.NewSequence("s", []uint8(a[2]), "")
		tr, err := s.Translate(atoi(a[0]), atoi(a[1]))
		if err != nil {
			return "err"
		}
		return "ok " + tr.Sequence()
	})
	// translatehex: same with hex-encoded residues (arbitrary bytes)
	register("translatehex", func(a []string) string {
		s := align.NewSequence("s", unhex(a[2]), "")
		tr, err := s.Translate(atoi(a[0]), atoi(a[1]))
		if err != nil {
			return "err"
		}
		return "ok " + hexs(tr.SequenceChar())
	})
	// bagtranslate <alphabet> <phase> <code> <rows> : SeqBag.Translate (phase -1 = three frames)
	register("bagtranslate", func(a []string) string {
		sb := mkBag(atoi(a[0]), decRows(a[3]))
		err := sb.Translate(atoi(a[1]), atoi(a[2]))
		return okErr(err, itoa(sb.Alphabet())+" "+encRows(rowsOf(sb)))
	})
	// altranslate <alphabet> <phase> <code> <rows> : Alignment.Translate, reports Length too
	register("altranslate", func(a []string) string {
		al, err := mkAlign(atoi(a[0]), decRows(a[3]))
		if err != nil {
			return "err-build"
		}
		err = al.Translate(atoi(a[1]), atoi(a[2]))
		return okErr(err, itoa(al.Length())+" "+itoa(al.Alphabet())+" "+encRows(rowsOf(al)))
	})
	// codonalign <code> <protrows> <ntrows>   (<code> is only used by the oracle's predicate)
	register("codonalign", func(a []string) string {
		al, err := mkAlign(align.AMINOACIDS, decRows(a[1]))
		if err != nil {
			return "err-build"
		}
		nt := mkBag(align.NUCLEOTIDS, decRows(a[2]))
		res, err := al.CodonAlign(nt)
		if err != nil {
			return "err"
		}
		return "ok " + itoa(res.Length()) + " " + encRows(rowsOf(res))
	})
	// byref <phase> <code> <ref> <rows>
	register("byref", func(a []string) string {
		al, err := mkAlign(align.NUCLEOTIDS, decRows(a[3]))
		if err != nil {
			return "err-build"
		}
		err = al.TranslateByReference(atoi(a[0]), atoi(a[1]), a[2])
		if err != nil {
			return "err " + encRows(rowsOf(al))
		}
		return "ok " + itoa(al.Length()) + " " + encRows(rowsOf(al))
	})
}
