package main

// Validation of the hand-written model of a small subset of Go's regexp (lean/Gv/Model/Regex.lean), which the
// command-line expectations of `rename -e`, `replace -e` and `subset -e` use: the real package answers here.

import (
	"regexp"
)

func init() {
	// regexsub <hex pattern> <hex template> <hex input>  ->  err | <matched 0/1>:<hex of ReplaceAllString>
	register("regexsub", func(args []string) string {
		pat := string(unhexz(args[0]))
		tmpl := string(unhexz(args[1]))
		in := string(unhexz(args[2]))
		r, err := regexp.Compile(pat)
		if err != nil {
			return "err"
		}
		return btoa(r.MatchString(in)) + ":" + hexz([]byte(r.ReplaceAllString(in, tmpl)))
	})
}
