package main

// C01 (and C19 for Clone): histories of public SeqBag / Alignment operations, with the full
// observation vector through every access path after each step.
//
//   hist <kind A|B> <alphabet> <rows> <ops>
//
// rows: `name/seq/name/seq...` (`_` = none), names percent-encoded (%XX for every byte outside
// [A-Za-z0-9_]), sequences plain over [A-Za-z*?.-].  ops: `;`-separated, fields `:`-separated.
// Result: `;`-separated per-step records `<status>|<observation>`; a panic in a step ends the
// trace with `PANIC`.

import (
	"fmt"
	"math/rand"
	"regexp"
	"sort"
	"strings"

	"github.com/evolbioinfo/goalign/align"
)

func pctEnc(s string) string {
	var b strings.Builder
	for i := 0; i < len(s); i++ {
		c := s[i]
		if (c >= 'A' && c <= 'Z') || (c >= 'a' && c <= 'z') || (c >= '0' && c <= '9') || c == '_' {
			b.WriteByte(c)
		} else {
			fmt.Fprintf(&b, "%%%02X", c)
		}
	}
	return b.String()
}

func pctDec(s string) string {
	var b strings.Builder
	for i := 0; i < len(s); i++ {
		if s[i] == '%' && i+2 < len(s) {
			var v int
			fmt.Sscanf(s[i+1:i+3], "%02X", &v)
			b.WriteByte(byte(v))
			i += 2
		} else {
			b.WriteByte(s[i])
		}
	}
	return b.String()
}

func decPRows(s string) []Row {
	if s == "_" || s == "" {
		return nil
	}
	f := strings.Split(s, "/")
	rows := []Row{}
	for i := 0; i+1 < len(f); i += 2 {
		rows = append(rows, Row{pctDec(f[i]), f[i+1]})
	}
	return rows
}

func encPRows(rows []Row) string {
	if len(rows) == 0 {
		return "_"
	}
	parts := make([]string, 0, 2*len(rows))
	for _, r := range rows {
		parts = append(parts, pctEnc(r.Name), r.Seq)
	}
	return strings.Join(parts, "/")
}

// observe renders everything a caller can see, through all access paths.
func observe(sb align.SeqBag, al align.Alignment, probes []string) string {
	var b strings.Builder
	n := sb.NbSequences()
	fmt.Fprintf(&b, "n=%d", n)
	if al != nil {
		fmt.Fprintf(&b, " len=%d", al.Length())
	}
	fmt.Fprintf(&b, " alpha=%d", sb.Alphabet())
	// iteration
	it := []Row{}
	sb.IterateChar(func(name string, s []uint8) bool {
		it = append(it, Row{name, string(s)})
		return false
	})
	fmt.Fprintf(&b, " it=%s", encPRows(it))
	// by index, including out-of-range probes -1 and n
	byid := []Row{}
	for i := -1; i <= n; i++ {
		nm, ok1 := sb.GetSequenceNameById(i)
		sq, ok2 := sb.GetSequenceById(i)
		if ok1 != ok2 {
			byid = append(byid, Row{"!mismatch", ""})
		}
		if ok1 {
			byid = append(byid, Row{nm, sq})
		} else if i >= 0 && i < n {
			byid = append(byid, Row{"!missing", ""})
		}
	}
	if encPRows(byid) == encPRows(it) {
		fmt.Fprintf(&b, " byid==")
	} else {
		fmt.Fprintf(&b, " byid=%s", encPRows(byid))
	}
	// Sequences() slice
	ss := []Row{}
	for _, s := range sb.Sequences() {
		ss = append(ss, Row{s.Name(), s.Sequence()})
	}
	if encPRows(ss) == encPRows(it) {
		fmt.Fprintf(&b, " seqs==")
	} else {
		fmt.Fprintf(&b, " seqs=%s", encPRows(ss))
	}
	// by name: every current name and every probe
	seen := map[string]bool{}
	names := []string{}
	for _, r := range it {
		if !seen[r.Name] {
			seen[r.Name] = true
			names = append(names, r.Name)
		}
	}
	for _, p := range probes {
		if !seen[p] {
			seen[p] = true
			names = append(names, p)
		}
	}
	sort.Strings(names)
	parts := []string{}
	for _, nm := range names {
		s1, ok1 := sb.GetSequence(nm)
		s2, ok2 := sb.GetSequenceChar(nm)
		s3, ok3 := sb.GetSequenceByName(nm)
		s4, ok4 := sb.SequenceByName(nm)
		id := sb.GetSequenceIdByName(nm)
		v := "-"
		if ok1 {
			v = "+" + s1
		}
		if ok1 != ok2 || ok1 != ok3 || ok1 != ok4 {
			v = "!okmismatch"
		} else if ok1 && (string(s2) != s1 || s3.Sequence() != s1 || s4.Sequence() != s1 || s3.Name() != s4.Name()) {
			v = "!valmismatch"
		}
		on := ""
		if ok3 {
			on = pctEnc(s3.Name())
		}
		parts = append(parts, fmt.Sprintf("%s>%s>%s>%d", pctEnc(nm), v, on, id))
	}
	fmt.Fprintf(&b, " byname=%s", strings.Join(parts, ","))
	return b.String()
}

// decNames decodes a list of names: percent-encoded, "/"-separated, "_" when empty.
func decNames(s string) []string {
	if s == "_" || s == "" {
		return []string{}
	}
	out := []string{}
	for _, n := range strings.Split(s, "/") {
		out = append(out, pctDec(n))
	}
	return out
}

func parseFrac(s string) float64 {
	f := strings.Split(s, "/")
	if len(f) == 1 {
		return float64(atoi(f[0]))
	}
	return float64(atoi(f[0])) / float64(atoi(f[1]))
}

type histState struct {
	sb     align.SeqBag
	al     align.Alignment // nil for a plain seqbag
	probes []string
	// alignments handed to Append / Concat as arguments, with their content at that moment: an argument is only
	// read, so it must keep that content whatever happens to the receiver later, and writing into it afterwards
	// must not show in the receiver
	args     []align.Alignment
	argSnaps []string
}

func (h *histState) keepArg(o align.Alignment) {
	h.args = append(h.args, o)
	h.argSnaps = append(h.argSnaps, encRows(rowsOf(o)))
}

// aliasRecord is appended to the trace after the last operation.
func (h *histState) aliasRecord() string {
	if len(h.args) == 0 {
		return "alias=ok"
	}
	for k, o := range h.args {
		if encRows(rowsOf(o)) != h.argSnaps[k] {
			return "alias=argument-changed"
		}
	}
	before := observe(h.sb, h.al, h.probes)
	for _, o := range h.args {
		o.ToLower()
		for i := 0; i < o.NbSequences(); i++ {
			if s, ok := o.GetSequenceById(i); ok {
				for j := 0; j < len(s); j++ {
					o.SetSequenceChar(i, j, '#')
				}
			}
		}
	}
	if observe(h.sb, h.al, h.probes) != before {
		return "alias=receiver-changed-by-writing-into-an-argument"
	}
	return "alias=ok"
}

func (h *histState) addProbe(n string) { h.probes = append(h.probes, n) }

// step executes one operation, returns its status string.
func (h *histState) step(op string) string {
	f := strings.Split(op, ":")
	errs := func(err error) string {
		if err != nil {
			return "err"
		}
		return "ok"
	}
	switch f[0] {
	case "add":
		nm := pctDec(f[1])
		h.addProbe(nm)
		h.addProbe(nm + "_0001")
		return errs(h.sb.AddSequence(nm, f[2], ""))
	case "ignore":
		h.sb.IgnoreIdentical(atoi(f[1]))
		return "ok"
	case "clear":
		h.sb.Clear()
		return "ok"
	case "append":
		if h.al == nil {
			return "na"
		}
		o, err := mkAlign(h.sb.Alphabet(), decPRows(f[1]))
		if err != nil {
			return "na"
		}
		h.keepArg(o)
		return errs(h.al.Append(o))
	case "concat":
		for _, r := range decPRows(f[1]) {
			h.addProbe(r.Name)
		}
		if h.al == nil {
			return "na"
		}
		o, err := mkAlign(h.sb.Alphabet(), decPRows(f[1]))
		if err != nil {
			return "na"
		}
		h.keepArg(o)
		return errs(h.al.Concat(o))
	case "rename":
		m := map[string]string{}
		for _, r := range decPRows(f[1]) {
			m[r.Name] = pctDec(r.Seq)
			h.addProbe(r.Name)
			h.addProbe(pctDec(r.Seq))
		}
		h.sb.Rename(m)
		return "ok"
	case "renamere":
		// regexp is an external: the value of ReplaceAllString for the name of every row, in order, is computed here
		// (before the call, on the names as iteration shows them) and handed to the model in the status (`{=n1=n2...}`,
		// `{!}` when the expression does not compile); the model applies what the method does with those names
		re, repl := pctDec(f[1]), pctDec(f[2])
		olds := []string{}
		h.sb.IterateChar(func(name string, s []uint8) bool {
			olds = append(olds, name)
			return false
		})
		ext := "!"
		if r, cerr := regexp.Compile(re); cerr == nil {
			ext = ""
			for _, o := range olds {
				ext += "=" + pctEnc(r.ReplaceAllString(o, repl))
			}
		}
		m := map[string]string{}
		err := h.sb.RenameRegexp(re, repl, m)
		// the name map in order of first occurrence of the old names, then (never expected) any other key, sorted
		keys := []string{}
		done := map[string]bool{}
		for _, o := range olds {
			if v, ok := m[o]; ok && !done[o] {
				done[o] = true
				keys = append(keys, pctEnc(o)+"="+pctEnc(v))
			}
		}
		rest := []string{}
		for k, v := range m {
			h.addProbe(k)
			h.addProbe(v)
			if !done[k] {
				rest = append(rest, "!"+pctEnc(k)+"="+pctEnc(v))
			}
		}
		sort.Strings(rest)
		keys = append(keys, rest...)
		return errs(err) + "[" + strings.Join(keys, ",") + "]{" + ext + "}"
	case "appendid":
		h.sb.AppendSeqIdentifier(pctDec(f[1]), atob(f[2]))
		return "ok"
	case "cleannames":
		m := map[string]string{}
		h.sb.CleanNames(m)
		return "ok"
	case "trimnames":
		m := map[string]string{}
		err := h.sb.TrimNames(m, atoi(f[1]))
		return errs(err)
	case "trimauto":
		m := map[string]string{}
		cur := atoi(f[1])
		err := h.sb.TrimNamesAuto(m, &cur)
		return errs(err) + fmt.Sprintf("[%d]", cur)
	case "sort":
		h.sb.Sort()
		return "ok"
	case "shuffle":
		rand.Seed(int64(atoi(f[1])))
		h.sb.ShuffleSequences()
		return "ok"
	case "filter":
		return errs(h.sb.FilterLength(atoi(f[1]), atoi(f[2])))
	case "dedup":
		id, err := h.sb.Deduplicate(atob(f[1]))
		g := []string{}
		for _, grp := range id {
			e := make([]string, len(grp))
			for i, x := range grp {
				e[i] = pctEnc(x)
			}
			g = append(g, strings.Join(e, "+"))
		}
		return errs(err) + "[" + strings.Join(g, ",") + "]"
	case "rmseqs":
		if h.al == nil {
			return "na"
		}
		k := h.al.RemoveCharacterSeqs(f[1][0], parseFrac(f[2]), atob(f[3]), atob(f[4]), atob(f[5]))
		return fmt.Sprintf("ok[%d]", k)
	case "rmgapseqs":
		if h.al == nil {
			return "na"
		}
		k := h.al.RemoveGapSeqs(parseFrac(f[1]), atob(f[2]))
		return fmt.Sprintf("ok[%d]", k)
	case "rmgapsites":
		if h.al == nil {
			return "na"
		}
		a, b, kept, rm := h.al.RemoveGapSites(parseFrac(f[1]), atob(f[2]))
		return fmt.Sprintf("ok[%d,%d,%s,%s]", a, b, strings.ReplaceAll(encInts(kept), ",", "+"), strings.ReplaceAll(encInts(rm), ",", "+"))
	case "rmcharsites":
		if h.al == nil {
			return "na"
		}
		set := []uint8{}
		if f[1] != "_" {
			set = []uint8(pctDec(f[1]))
		}
		a, b, kept, rm := h.al.RemoveCharacterSites(set, parseFrac(f[2]), atob(f[3]), atob(f[4]), atob(f[5]), atob(f[6]), atob(f[7]))
		return fmt.Sprintf("ok[%d,%d,%s,%s]", a, b, strings.ReplaceAll(encInts(kept), ",", "+"), strings.ReplaceAll(encInts(rm), ",", "+"))
	case "rmmajsites":
		if h.al == nil {
			return "na"
		}
		a, b, kept, rm := h.al.RemoveMajorityCharacterSites(parseFrac(f[1]), atob(f[2]), atob(f[3]), atob(f[4]))
		return fmt.Sprintf("ok[%d,%d,%s,%s]", a, b, strings.ReplaceAll(encInts(kept), ",", "+"), strings.ReplaceAll(encInts(rm), ",", "+"))
	case "translate":
		return errs(h.sb.Translate(atoi(f[1]), atoi(f[2])))
	case "clone":
		if h.al != nil {
			c, err := h.al.Clone()
			if err != nil {
				return "err"
			}
			h.al = c
			h.sb = c
		} else {
			c, err := h.sb.CloneSeqBag()
			if err != nil {
				return "err"
			}
			h.sb = c
		}
		return "ok"
	case "sample":
		rand.Seed(int64(atoi(f[2])))
		if h.al != nil {
			c, err := h.al.Sample(atoi(f[1]))
			if err != nil {
				return "err"
			}
			h.al = c
			h.sb = c
		} else {
			c, err := h.sb.SampleSeqBag(atoi(f[1]))
			if err != nil {
				return "err"
			}
			h.sb = c
		}
		return "ok"
	case "toupper":
		h.sb.ToUpper()
		return "ok"
	case "tolower":
		h.sb.ToLower()
		return "ok"
	case "replace":
		return errs(h.sb.Replace(f[1], f[2], false))
	case "replacere":
		// regexp is an external: the value of ReplaceAllString for the sequence of every row, in order, is computed here
		// (before the call) and handed to the model in the status (`{=s1=s2...}`, `{!}` when the expression does not compile)
		re, repl := pctDec(f[1]), pctDec(f[2])
		ext := "!"
		if r, cerr := regexp.Compile(re); cerr == nil {
			ext = ""
			h.sb.IterateChar(func(name string, s []uint8) bool {
				ext += "=" + pctEnc(r.ReplaceAllString(string(s), repl))
				return false
			})
		}
		return errs(h.sb.Replace(re, repl, true)) + "{" + ext + "}"
	case "setchar":
		return errs(h.sb.SetSequenceChar(atoi(f[1]), atoi(f[2]), f[3][0]))
	case "replacechar":
		if h.al == nil {
			return "na"
		}
		return errs(h.al.ReplaceChar(pctDec(f[1]), atoi(f[2]), f[3][0]))
	case "trimseqs":
		if h.al == nil {
			return "na"
		}
		return errs(h.al.TrimSequences(atoi(f[1]), atob(f[2])))
	case "compress":
		if h.al == nil {
			return "na"
		}
		w := h.al.Compress()
		return "ok[" + strings.ReplaceAll(encInts(w), ",", "+") + "]"
	case "autoalpha":
		h.sb.AutoAlphabet()
		return "ok"
	case "setalpha":
		return errs(h.sb.SetAlphabet(atoi(f[1])))
	case "unalign":
		h.sb = h.sb.Unalign()
		h.al = nil
		return "ok"
	case "revcomp":
		return errs(h.sb.ReverseComplement())
	case "mask", "maskocc", "maskuniq":
		ref := pctDec(f[1])
		if f[1] == "_" {
			ref = ""
		}
		if ref != "" {
			h.addProbe(ref)
		}
		if h.al == nil {
			return "na"
		}
		unrep := func(s string) string {
			s = pctDec(s)
			if s == "_" {
				return ""
			}
			return s
		}
		switch f[0] {
		case "mask":
			return errs(h.al.Mask(ref, atoi(f[2]), atoi(f[3]), unrep(f[4]), atob(f[5]), atob(f[6])))
		case "maskocc":
			return errs(h.al.MaskOccurences(ref, atoi(f[2]), unrep(f[3])))
		}
		return errs(h.al.MaskUnique(ref, unrep(f[2])))
	case "diffwithfirst":
		if h.al == nil {
			return "na"
		}
		h.al.DiffWithFirst()
		return "ok"
	case "replacematch":
		if h.al == nil {
			return "na"
		}
		h.al.ReplaceMatchChars()
		return "ok"
	case "revcompseqs":
		names := decNames(f[1])
		for _, n := range names {
			h.addProbe(n)
		}
		return errs(h.sb.ReverseComplementSequences(names...))
	}
	return "bad-op"
}

func init() {
	register("hist", func(a []string) string {
		alpha := atoi(a[1])
		h := &histState{}
		if a[0] == "A" {
			al := align.NewAlign(alpha)
			h.al = al
			h.sb = al
		} else {
			h.sb = align.NewSeqBag(alpha)
		}
		out := []string{}
		build := "ok"
		for _, r := range decPRows(a[2]) {
			h.addProbe(r.Name)
			if err := h.sb.AddSequence(r.Name, r.Seq, ""); err != nil {
				build = "err"
			}
		}
		out = append(out, build+"|"+observe(h.sb, h.al, h.probes))
		if a[3] != "_" && a[3] != "" {
			for _, op := range strings.Split(a[3], ";") {
				var rec string
				func() {
					defer func() {
						if r := recover(); r != nil {
							rec = "PANIC"
						}
					}()
					st := h.step(op)
					rec = st + "|" + observe(h.sb, h.al, h.probes)
				}()
				out = append(out, rec)
				if rec == "PANIC" {
					break
				}
			}
		}
		if len(out) == 0 || out[len(out)-1] != "PANIC" {
			func() {
				defer func() {
					if r := recover(); r != nil {
						out = append(out, "alias=panic")
					}
				}()
				out = append(out, h.aliasRecord())
			}()
		}
		return strings.Join(out, ";")
	})
}

func init() {
	// C01
	// identical <A|B> <alphabet> <rows of x> <rows of y> <rename map of x|_> <rename map of y|_>:
	// two containers built row by row (a refused row is skipped), optionally renamed by the caller (which may make
	// names collide), then x.Identical(y) and y.Identical(x), and the rows as each container holds them
	register("identical", func(a []string) string {
		alpha := atoi(a[1])
		mk := func(rows []Row, ren string) align.SeqBag {
			var sb align.SeqBag
			if a[0] == "A" {
				sb = align.NewAlign(alpha)
			} else {
				sb = align.NewSeqBag(alpha)
			}
			for _, r := range rows {
				sb.AddSequence(r.Name, r.Seq, "")
			}
			if rn := decPRows(ren); len(rn) > 0 {
				m := map[string]string{}
				for _, r := range rn {
					m[r.Name] = pctDec(r.Seq)
				}
				sb.Rename(m)
			}
			return sb
		}
		x := mk(decPRows(a[2]), a[4])
		y := mk(decPRows(a[3]), a[5])
		return fmt.Sprintf("%s %s %s %s", btoa(x.Identical(y)), btoa(y.Identical(x)), encPRows(rowsOf(x)), encPRows(rowsOf(y)))
	})
}
