package main

// C17 — protein distances (distance/protein).  One op:
//
//   c17 <model> <modelfreqs> <gamma> <alpha> <rmgaps> <weights> <rowperm> <colperm> <rows>
//
//   model      0..6 (MODEL_DAYHOFF, JTT, MTREV, LG, WAG, HIVB, AB)
//   modelfreqs 1: the model's own frequencies; 0: frequencies counted in the alignment
//   alpha      n or n/d (naturals): the float64 quotient — the Lean side performs the same division
//   weights    `_` (nil) or a comma separated list of n or n/d
//   rowperm    permutation of 0..n-1: row i of the permuted alignment is row rowperm[i] of the original
//   colperm    permutation of 0..L-1, same convention (the weights are permuted along)
//
// What is called, exactly as cmd/computedist.go / cmd/distboot.go do: NewProtDistModel, InitModel(a, w),
// MLDist(a, w) — on the alignment, on its row permutation and on its column permutation (a fresh model
// each time) — and JC69Dist(a, w, all-true).  The substitution model the distance model ended up with
// (frequencies after InitModel, eigen values, left / right eigen vectors) is an unexported field; it is
// *read* (never written) through reflect so that the oracle can evaluate an independent likelihood
// under exactly the model the implementation used.
//
// Result: `err <stage>` or `ok ` followed by `;`-separated sections `name=v,v,…`; every float is an
// IEEE-754 bit pattern (16 hex digits): exact, no decimal round trip.
//   pi (20) val (20) L (400, row-major) R (400)   the model of the unpermuted call
//   pir, pic (20 each)                            frequencies of the two permuted calls
//   valr, Lr, Rr / valc, Lc, Rc                   their eigen-systems, present only when pir / pic differ from pi
//   p  (n*n)   what MLDist returns as `p`: JC69Dist's observed proportion of differences on the selected sites
//   jc (n*n)   JC69Dist(a, w, all-true) distances
//   d, dr, dc (n*n)  MLDist distances: original, rows permuted, columns permuted

import (
	"fmt"
	"math"
	"reflect"
	"strings"
	"unsafe"

	"github.com/evolbioinfo/goalign/align"
	"github.com/evolbioinfo/goalign/distance/protein"
	pm "github.com/evolbioinfo/goalign/models/protein"
	"gonum.org/v1/gonum/mat"
)

func hexFloats(v []float64) string {
	parts := make([]string, len(v))
	for i, x := range v {
		parts[i] = fmt.Sprintf("%016x", math.Float64bits(x))
	}
	return strings.Join(parts, ",")
}

func denseAll(m *mat.Dense) []float64 {
	r, c := m.Dims()
	out := make([]float64, 0, r*c)
	for i := 0; i < r; i++ {
		for j := 0; j < c; j++ {
			out = append(out, m.At(i, j))
		}
	}
	return out
}

// innerProtModel reads the unexported field `model` of a ProtDistModel (observation only).
func innerProtModel(m *protein.ProtDistModel) *pm.ProtModel {
	f := reflect.ValueOf(m).Elem().FieldByName("model")
	if !f.IsValid() {
		panic("harness: ProtDistModel has no field `model`")
	}
	return reflect.NewAt(f.Type(), unsafe.Pointer(f.UnsafeAddr())).Elem().Interface().(*pm.ProtModel)
}

func sameBits(a, b []float64) bool {
	if len(a) != len(b) {
		return false
	}
	for i := range a {
		if math.Float64bits(a[i]) != math.Float64bits(b[i]) {
			return false
		}
	}
	return true
}

type c17Run struct {
	pi, val, l, r, p, d []float64
}

// c17Shared, when not nil, is the one model object the calls of a case share (`reuse` variant of the op): with model
// frequencies it is initialised once with InitModel(nil, nil) and then asked for one alignment after the other, as
// cmd/computedist.go and cmd/distboot.go do; with empirical frequencies it is re-initialised for every alignment.
var c17Shared *protein.ProtDistModel
var c17SharedInit bool

func c17Call(idx int, modelfreqs, gamma bool, alpha float64, rmgaps bool, w []float64, rows []Row) (res c17Run, stage string) {
	al, err := mkAlign(align.AMINOACIDS, rows)
	if err != nil {
		return res, "build"
	}
	var m *protein.ProtDistModel
	if c17Shared != nil {
		m = c17Shared
	} else if m, err = protein.NewProtDistModel(idx, modelfreqs, gamma, alpha, rmgaps); err != nil {
		return res, "new"
	}
	var wc []float64
	if w != nil {
		wc = append([]float64{}, w...)
	}
	if c17Shared != nil && modelfreqs {
		if !c17SharedInit {
			if err = m.InitModel(nil, nil); err != nil {
				return res, "init"
			}
			c17SharedInit = true
		}
	} else if err = m.InitModel(al, wc); err != nil {
		return res, "init"
	}
	p, _, d, err := m.MLDist(al, wc)
	if err != nil {
		return res, "mldist"
	}
	im := innerProtModel(m)
	res.pi = make([]float64, 20)
	for i := range res.pi {
		res.pi[i] = im.Pi(i)
	}
	val, left, right, _ := im.Eigens()
	res.val = append([]float64{}, val...)
	res.l, res.r = denseAll(left), denseAll(right)
	res.p, res.d = denseAll(p), denseAll(d)
	return res, ""
}

func isPerm(p []int, n int) bool {
	if len(p) != n {
		return false
	}
	seen := make([]bool, n)
	for _, x := range p {
		if x < 0 || x >= n || seen[x] {
			return false
		}
		seen[x] = true
	}
	return true
}

func init() {
	register("c17", func(a []string) string {
		idx, modelfreqs, gamma, alpha, rmgaps := atoi(a[0]), atob(a[1]), atob(a[2]), ratio(a[3]), atob(a[4])
		var w []float64
		if a[5] != "_" {
			for _, s := range strings.Split(a[5], ",") {
				w = append(w, ratio(s))
			}
		}
		rp, cp := ints(a[6]), ints(a[7])
		rows := decRows(a[8])
		n := len(rows)
		if n == 0 {
			panic("harness: c17 needs rows")
		}
		L := len(rows[0].Seq)
		if !isPerm(rp, n) || !isPerm(cp, L) || (w != nil && len(w) != L) {
			panic("harness: c17 bad permutation or weights")
		}
		// a[9] = "reuse": the three calls below go through one model object
		c17Shared, c17SharedInit = nil, false
		if len(a) > 9 && a[9] == "reuse" {
			var err error
			if c17Shared, err = protein.NewProtDistModel(idx, modelfreqs, gamma, alpha, rmgaps); err != nil {
				return "err new"
			}
			defer func() { c17Shared = nil }()
		}
		if c17Shared != nil {
			// warm-up through the shared model: an alignment of the same shape and ANOTHER amino-acid composition (state kept
			// from an earlier alignment - frequencies, eigen data, exponentials, site selections - must not reach the next)
			sub := strings.NewReplacer("A", "W", "L", "C", "E", "M", "G", "H", "S", "Y", "V", "F", "K", "Q", "T", "N")
			warm := make([]Row, n)
			for i, r := range rows {
				warm[i] = Row{r.Name, sub.Replace(r.Seq)}
			}
			c17Call(idx, modelfreqs, gamma, alpha, rmgaps, w, warm)
		}
		base, stage := c17Call(idx, modelfreqs, gamma, alpha, rmgaps, w, rows)
		if stage != "" {
			return "err " + stage
		}
		// JC69Dist with every site selected
		al, _ := mkAlign(align.AMINOACIDS, rows)
		mj, _ := protein.NewProtDistModel(idx, modelfreqs, gamma, alpha, rmgaps)
		wj := w
		if wj == nil {
			wj = make([]float64, L)
			for i := range wj {
				wj[i] = 1
			}
		}
		sel := make([]bool, L)
		for i := range sel {
			sel[i] = true
		}
		_, _, jc := mj.JC69Dist(al, wj, sel)
		// permuted calls
		rrows := make([]Row, n)
		for i := range rrows {
			rrows[i] = rows[rp[i]]
		}
		crows := make([]Row, n)
		for i, r := range rows {
			b := make([]byte, L)
			for j := range b {
				b[j] = r.Seq[cp[j]]
			}
			crows[i] = Row{r.Name, string(b)}
		}
		var cw []float64
		if w != nil {
			cw = make([]float64, L)
			for j := range cw {
				cw[j] = w[cp[j]]
			}
		}
		rr, stage := c17Call(idx, modelfreqs, gamma, alpha, rmgaps, w, rrows)
		if stage != "" {
			return "err row-" + stage
		}
		cr, stage := c17Call(idx, modelfreqs, gamma, alpha, rmgaps, cw, crows)
		if stage != "" {
			return "err col-" + stage
		}
		var sb strings.Builder
		sb.WriteString("ok pi=" + hexFloats(base.pi))
		sb.WriteString(";val=" + hexFloats(base.val))
		sb.WriteString(";L=" + hexFloats(base.l))
		sb.WriteString(";R=" + hexFloats(base.r))
		sb.WriteString(";pir=" + hexFloats(rr.pi))
		sb.WriteString(";pic=" + hexFloats(cr.pi))
		// the eigen-system of a permuted call, only when its frequencies are not bit-identical to the first call's
		if !sameBits(rr.pi, base.pi) {
			sb.WriteString(";valr=" + hexFloats(rr.val) + ";Lr=" + hexFloats(rr.l) + ";Rr=" + hexFloats(rr.r))
		}
		if !sameBits(cr.pi, base.pi) {
			sb.WriteString(";valc=" + hexFloats(cr.val) + ";Lc=" + hexFloats(cr.l) + ";Rc=" + hexFloats(cr.r))
		}
		sb.WriteString(";p=" + hexFloats(base.p))
		sb.WriteString(";jc=" + hexFloats(denseAll(jc)))
		sb.WriteString(";d=" + hexFloats(base.d))
		sb.WriteString(";dr=" + hexFloats(rr.d))
		sb.WriteString(";dc=" + hexFloats(cr.d))
		return sb.String()
	})
	// c17show: the same call, the matrices in decimal (for people reading a replay)
	register("c17show", func(a []string) string {
		idx, modelfreqs, gamma, alpha, rmgaps := atoi(a[0]), atob(a[1]), atob(a[2]), ratio(a[3]), atob(a[4])
		var w []float64
		if a[5] != "_" {
			for _, s := range strings.Split(a[5], ",") {
				w = append(w, ratio(s))
			}
		}
		base, stage := c17Call(idx, modelfreqs, gamma, alpha, rmgaps, w, decRows(a[8]))
		if stage != "" {
			return "err " + stage
		}
		return "ok pi=" + encFloats(base.pi) + ";p=" + encFloats(base.p) + ";d=" + encFloats(base.d)
	})
}

// protdistmatrix <model name> <rmgaps> <gamma> <alpha> <rows>
//
// The library call `goalign compute distance -m <protein model>` makes for ONE alignment, with a fresh model object:
// pm.ModelStringToInt, NewProtDistModel(idx, true, gamma, alpha, rmgaps), InitModel(nil, nil), MLDist(a, nil).  The alignment
// gets the alphabet the command's parsers give it (AutoAlphabet on the residues: an amino-acid alignment written with
// letters that are all nucleotide codes is a nucleotide alignment, and MLDist answers with an error).
// Result: `err <stage>` or `ok r;r;…` (rows of IEEE-754 bit patterns, as `distmatrix`).
func protDistMatrixOp(a []string) string {
	idx := pm.ModelStringToInt(a[0])
	if idx == -1 {
		return "err nomodel"
	}
	rmgaps, gamma, alpha := atob(a[1]), atob(a[2]), ratio(a[3])
	al, err := mkAlign(align.UNKNOWN, decRows(a[4]))
	if err != nil {
		return "err build"
	}
	al.AutoAlphabet()
	m, err := protein.NewProtDistModel(idx, true, gamma, alpha, rmgaps)
	if err != nil {
		return "err new"
	}
	if err = m.InitModel(nil, nil); err != nil {
		return "err init"
	}
	_, _, d, err := m.MLDist(al, nil)
	if err != nil {
		return "err mldist"
	}
	r, c := d.Dims()
	out := make([][]float64, r)
	for i := range out {
		out[i] = make([]float64, c)
		for j := range out[i] {
			out[i][j] = d.At(i, j)
		}
	}
	return "ok " + encMatrix(out)
}

func init() {
	register("protdistmatrix", protDistMatrixOp)
}
