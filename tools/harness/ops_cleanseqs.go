package main

// C12, per-sequence variant: RemoveCharacterSeqs / RemoveGapSeqs on a fresh alignment.

import "fmt"

func init() {
	// rmseqs <alphabet> <rows> <char> <cutoff> <ignoreCase> <ignoreGaps> <ignoreNs>
	register("rmseqs", func(a []string) string {
		al := alFrom(a[1], atoi(a[0]))
		k := al.RemoveCharacterSeqs(a[2][0], parseFrac(a[3]), atob(a[4]), atob(a[5]), atob(a[6]))
		return fmt.Sprintf("%d %d %s", k, al.Length(), encRows(rowsOf(al)))
	})
	// rmgapseqs <alphabet> <rows> <cutoff> <ignoreNs>
	register("rmgapseqs", func(a []string) string {
		al := alFrom(a[1], atoi(a[0]))
		k := al.RemoveGapSeqs(parseFrac(a[2]), atob(a[3]))
		return fmt.Sprintf("%d %d %s", k, al.Length(), encRows(rowsOf(al)))
	})
}
