package main

// C15: MaskUnique (a separate entry point of the public API; the model is MaskOccurences with threshold 1).

import "fmt"

func init() {
	// maskuniq <alphabet> <rows> <refseq|_> <replace>
	register("maskuniq", func(a []string) string {
		al := alFrom(a[1], atoi(a[0]))
		ref := a[2]
		if ref == "_" {
			ref = ""
		}
		rep := a[3]
		if rep == "_" {
			rep = ""
		}
		if err := al.MaskUnique(ref, rep); err != nil {
			return "err"
		}
		return fmt.Sprintf("ok %d %s", al.Length(), encRows(rowsOf(al)))
	})
}
