package main

// C19: queries never modify their input; copies share nothing with the original.

import (
	"fmt"
	"math/rand"
	"reflect"
	"strings"

	"github.com/evolbioinfo/goalign/align"
	"github.com/evolbioinfo/goalign/distance/dna"
	"github.com/evolbioinfo/goalign/distance/protein"
	"github.com/evolbioinfo/goalign/io/clustal"
	"github.com/evolbioinfo/goalign/io/fasta"
	"github.com/evolbioinfo/goalign/io/nexus"
	"github.com/evolbioinfo/goalign/io/paml"
	"github.com/evolbioinfo/goalign/io/phylip"
	"github.com/evolbioinfo/goalign/io/stockholm"
	pmodels "github.com/evolbioinfo/goalign/models/protein"
)

func snapshot(al align.Alignment) string {
	return fmt.Sprintf("%d %d %s", al.Length(), al.Alphabet(), encRows(rowsOf(al)))
}

type span struct{ lo, hi uintptr }

func spans(sb align.SeqBag) []span {
	out := []span{}
	sb.IterateChar(func(name string, s []uint8) bool {
		if cap(s) > 0 {
			p := reflect.ValueOf(s).Pointer()
			out = append(out, span{p, p + uintptr(cap(s))})
		}
		return false
	})
	return out
}

func overlap(a, b []span) bool {
	for _, x := range a {
		for _, y := range b {
			if x.lo < y.hi && y.lo < x.hi {
				return true
			}
		}
	}
	return false
}

func init() {
	// purity <alphabet> <rows> <query> : runs the query and compares the snapshot before / after
	register("purity", func(a []string) string {
		al := alFrom(a[1], atoi(a[0]))
		before := snapshot(al)
		n, L := al.NbSequences(), al.Length()
		switch a[2] {
		case "writers":
			_ = fasta.WriteAlignment(al)
			_ = phylip.WriteAlignment(al, false, false, false)
			_ = phylip.WriteAlignment(al, true, true, true)
			_ = nexus.WriteAlignment(al)
			_ = clustal.WriteAlignment(al)
			_ = stockholm.WriteAlignment(al)
			_ = paml.WriteAlignment(al)
			_ = al.String()
		case "stats":
			al.CharStats()
			al.UniqueCharacters()
			al.CharStatsSeq(0)
			al.CharStatsSite(0)
			al.MaxCharStats(true, false)
			al.Consensus(false, true)
			al.Entropy(0, true)
			al.NbVariableSites()
			al.InformativeSites()
			al.AvgAllelesPerSite()
			al.Pssm(true, 0.1, align.PSSM_NORM_LOGO)
			al.CountDifferences()
			al.NumGapsUniquePerSequence(nil)
			al.NumMutationsUniquePerSequence(nil)
			if n > 1 {
				al.Frameshifts(true)
				al.Stops(true, 0)
			}
			al.SiteConservation(0)
			if s0, ok := al.Sequence(0); ok {
				s0.NumMutationsComparedToReferenceSequence(al.Alphabet(), s0)
				s0.ListMutationsComparedToReferenceSequence(al.Alphabet(), s0, false)
				s0.LongestORF()
				s0.DetectAlphabet()
				s0.NumGaps()
			}
			// every row against every row as reference, nucleotide and codon (aa) listings
			for i := 0; i < n; i++ {
				for j := 0; j < n; j++ {
					si, _ := al.Sequence(i)
					sj, _ := al.Sequence(j)
					si.NumMutationsComparedToReferenceSequence(al.Alphabet(), sj)
					si.ListMutationsComparedToReferenceSequence(al.Alphabet(), sj, false)
					if al.Alphabet() == align.NUCLEOTIDS {
						si.ListMutationsComparedToReferenceSequence(al.Alphabet(), sj, true)
					}
				}
			}
			al.LongestORF(true)
		case "coords":
			nm, _ := al.GetSequenceNameById(0)
			al.RefCoordinates(nm, 0, 1)
			al.RefSites(nm, []int{0})
			al.InverseCoordinates(0, 1)
			al.InversePositions([]int{0})
			al.Identical(al)
			al.Sequences()
			al.GetSequence(nm)
			al.MaxNameLength()
		case "copies":
			al.SubAlign(0, L/2)
			al.SelectSites([]int{0})
			al.Transpose()
			al.BuildBootstrap(1.0)
			al.Clone()
			al.CloneSeqBag()
			al.Unalign()
			rand.Seed(1)
			al.Sample(1)
			al.RandSubAlign(1, true)
			al.RandSubAlign(1, false)
		case "dist":
			if al.Alphabet() == align.NUCLEOTIDS {
				for _, mname := range []string{"jc", "k2p", "f81", "f84", "tn93", "pdist", "rawdist"} {
					m, err := dna.Model(mname, false)
					if err == nil {
						dna.DistMatrix(al, nil, m, -1, -1, -1, -1, false, 1.0, 2)
					}
				}
			}
			if al.Alphabet() == align.AMINOACIDS {
				// protein distances: model frequencies and frequencies counted on the alignment, with and without gap removal
				L := al.Length()
				for _, mf := range []bool{true, false} {
					for _, rg := range []bool{false, true} {
						pm, err := protein.NewProtDistModel(pmodels.ModelStringToInt("lg"), mf, false, 1.0, rg)
						if err != nil {
							continue
						}
						if mf {
							err = pm.InitModel(nil, nil)
						} else {
							err = pm.InitModel(al, nil)
						}
						if err != nil {
							continue
						}
						pm.MLDist(al, nil)
						w := make([]float64, L)
						sel := make([]bool, L)
						for i := range w {
							w[i], sel[i] = 1, true
						}
						pm.JC69Dist(al, w, sel)
					}
				}
			}
		case "sw":
			if n >= 2 {
				s1, _ := al.Sequence(0)
				s2, _ := al.Sequence(1)
				u1 := align.NewSequence("a", []uint8(strings.ReplaceAll(s1.Sequence(), "-", "")), "")
				u2 := align.NewSequence("b", []uint8(strings.ReplaceAll(s2.Sequence(), "-", "")), "")
				b1, b2 := u1.Sequence(), u2.Sequence()
				aligner := align.NewPwAligner(u1, u2, align.ALIGN_ALGO_SW)
				aligner.Alignment()
				atg := align.NewPwAligner(u1, u2, align.ALIGN_ALGO_ATG)
				atg.Alignment()
				if u1.Sequence() != b1 || u2.Sequence() != b2 {
					return "changed:sw-inputs"
				}
			}
		default:
			return "bad-query"
		}
		if snapshot(al) != before {
			return "changed"
		}
		return "same"
	})
	// alias <alphabet> <rows> <copyop>: overlap of backing arrays, then mutate copy / original
	// aliassplit <alphabet> <rows> <halves|codon>: Split must not write into its input, its parts must hold exactly
	// the columns of their partition, and the parts must own their data
	register("aliassplit", func(a []string) string {
		al := alFrom(a[1], atoi(a[0]))
		L := al.Length()
		if L < 3 {
			return "na"
		}
		ps := align.NewPartitionSet(L)
		var part func(j int) int
		if a[2] == "codon" {
			for k := 0; k < 3; k++ {
				if err := ps.AddRange(fmt.Sprintf("p%d", k), "M", k, L-1, 3); err != nil {
					return "err-partition"
				}
			}
			part = func(j int) int { return j % 3 }
		} else {
			h := L / 2
			if err := ps.AddRange("p0", "M", 0, h-1, 1); err != nil {
				return "err-partition"
			}
			if err := ps.AddRange("p1", "M", h, L-1, 1); err != nil {
				return "err-partition"
			}
			part = func(j int) int {
				if j < h {
					return 0
				}
				return 1
			}
		}
		in := rowsOf(al)
		before := snapshot(al)
		parts, err := al.Split(ps)
		if err != nil {
			return "err"
		}
		pure := snapshot(al) == before
		partsOk := true
		for pi, p := range parts {
			got := rowsOf(p)
			if len(got) != len(in) {
				partsOk = false
				continue
			}
			for i, r := range in {
				exp := make([]byte, 0, len(r.Seq))
				for j := 0; j < len(r.Seq); j++ {
					if part(j) == pi {
						exp = append(exp, r.Seq[j])
					}
				}
				if got[i].Name != r.Name || got[i].Seq != string(exp) {
					partsOk = false
				}
			}
		}
		shared := false
		for _, p := range parts {
			if overlap(spans(al), spans(p)) {
				shared = true
			}
		}
		mid := snapshot(al)
		for _, p := range parts {
			p.ToLower()
			for i := 0; i < p.NbSequences(); i++ {
				p.SetSequenceChar(i, 0, '#')
			}
		}
		origKept := snapshot(al) == mid
		return fmt.Sprintf("split-pure=%s parts-ok=%s shared=%s orig-unchanged=%s", btoa(pure), btoa(partsOk), btoa(shared), btoa(origKept))
	})
	register("alias", func(a []string) string {
		c, al, bad := mkCopy(a)
		if bad != "" {
			return bad
		}
		shared := overlap(spans(al), spans(c))
		before := snapshot(al)
		// arbitrary in-place mutations of the copy
		c.ToLower()
		for i := 0; i < c.NbSequences(); i++ {
			if s, ok := c.GetSequenceById(i); ok {
				for j := 0; j < len(s); j++ {
					c.SetSequenceChar(i, j, '#')
				}
			}
		}
		c.Replace("a", "z", false)
		origKept := snapshot(al) == before
		cs := encRows(rowsOf(c))
		// and of the original
		al.ToUpper()
		al.SetSequenceChar(0, 0, '@')
		copyKept := encRows(rowsOf(c)) == cs
		return fmt.Sprintf("shared=%s orig-unchanged=%s copy-unchanged=%s", btoa(shared), btoa(origKept), btoa(copyKept))
	})

	// aliascodon <protein rows> <extra>: CodonAlign threads a set of nucleotide sequences (3 per residue, `extra` = 0..2
	// further nucleotides on every other row) onto the protein alignment; the codon alignment must own its data:
	// no overlap with the nucleotide set, writes to one never show in the other
	register("aliascodon", func(a []string) string {
		al := alFrom(a[0], align.AMINOACIDS)
		extra := atoi(a[1])
		nt := align.NewSeqBag(align.NUCLEOTIDS)
		codons := []string{"GCT", "AAA", "TGG", "CAT", "GGA"}
		k := 0
		for i, r := range rowsOf(al) {
			var b strings.Builder
			for _, ch := range r.Seq {
				if ch != '-' {
					b.WriteString(codons[k%len(codons)])
					k++
				}
			}
			if i%2 == 1 {
				b.WriteString("AC"[:extra])
			}
			if err := nt.AddSequence(r.Name, b.String(), ""); err != nil {
				return "err"
			}
		}
		c, err := al.CodonAlign(nt)
		if err != nil {
			return "err"
		}
		shared := overlap(spans(nt), spans(c))
		before := encRows(rowsOf(nt))
		c.ToLower()
		for i := 0; i < c.NbSequences(); i++ {
			if s, ok := c.GetSequenceById(i); ok {
				for j := 0; j < len(s); j++ {
					c.SetSequenceChar(i, j, '#')
				}
			}
		}
		origKept := encRows(rowsOf(nt)) == before
		cs := encRows(rowsOf(c))
		nt.ToLower()
		for i := 0; i < nt.NbSequences(); i++ {
			if s, ok := nt.GetSequenceById(i); ok && len(s) > 0 {
				nt.SetSequenceChar(i, 0, '@')
			}
		}
		copyKept := encRows(rowsOf(c)) == cs
		return fmt.Sprintf("shared=%s orig-unchanged=%s copy-unchanged=%s", btoa(shared), btoa(origKept), btoa(copyKept))
	})

	// aliasappend <alphabet> <rows> <constructor> [arg]: the derived alignment is grown in place (Concat of a clone of
	// itself: every row is appended to); each row must then read row+row, and the source must be unchanged.
	// A derived object whose rows keep spare capacity inside another row's (or the source's) bytes fails here.
	register("aliasappend", func(a []string) string {
		c, al, bad := mkCopy(a)
		if bad != "" {
			return bad
		}
		ca, ok := c.(align.Alignment)
		if !ok {
			return "not-an-alignment"
		}
		other, err := ca.Clone()
		if err != nil {
			return "err"
		}
		want := rowsOf(ca)
		for i := range want {
			want[i].Seq = want[i].Seq + want[i].Seq
		}
		before := snapshot(al)
		if err := ca.Concat(other); err != nil {
			return "err"
		}
		return fmt.Sprintf("append-ok=%s orig-unchanged=%s", btoa(encRows(rowsOf(ca)) == encRows(want)), btoa(snapshot(al) == before))
	})
}

// mkCopy builds the alignment of the case and the copy / derived object the case names (clone, subalign, ...)
func mkCopy(a []string) (align.SeqBag, align.Alignment, string) {
	al := alFrom(a[1], atoi(a[0]))
	var c align.SeqBag
	var err error
	L := al.Length()
	rand.Seed(7)
	switch a[2] {
	case "clone":
		c, err = al.Clone()
	case "clonebag":
		c, err = al.CloneSeqBag()
	case "subalign":
		// optional a[3] = "start,length" (default: the whole alignment)
		st, ln := 0, L
		if len(a) > 3 && a[3] != "_" {
			f := strings.Split(a[3], ",")
			st, ln = atoi(f[0]), atoi(f[1])
		}
		c, err = al.SubAlign(st, ln)
	case "selectsites":
		// optional a[3] = site list (default: every site in order)
		sites := make([]int, L)
		for i := range sites {
			sites[i] = i
		}
		if len(a) > 3 && a[3] != "_" {
			sites = sites[:0]
			for _, x := range strings.Split(a[3], ",") {
				sites = append(sites, atoi(x))
			}
		}
		c, err = al.SelectSites(sites)
	case "transpose":
		c, err = al.Transpose()
	case "bootstrap":
		c = al.BuildBootstrap(1.0)
	case "unalign":
		c = al.Unalign()
	case "sample":
		c, err = al.Sample(al.NbSequences())
	case "randsub":
		// optional a[3] = "length,consecutive"
		ln, cons := L, true
		if len(a) > 3 && a[3] != "_" {
			f := strings.Split(a[3], ",")
			ln, cons = atoi(f[0]), atob(f[1])
		}
		c, err = al.RandSubAlign(ln, cons)
	default:
		return nil, al, "bad-op"
	}
	if err != nil {
		return nil, al, "err"
	}
	return c, al, ""
}
