package main

// C18 — substitution models.  One op:
//
//   c18 <model> <params> <s> <t>
//
// <model> ∈ jc | k2p | f81 | f84 | tn93 | gtr | prot ; <params> is a comma separated float list
// (`_` = empty): jc: none; k2p: kappa; f81: piA,piC,piG,piT; f84: kappa,piA..piT;
// tn93: kappa1,kappa2,piA..piT; gtr: d,f,b,e,a,c,piA..piT (argument order of GTRModel.InitModel);
// prot: modelIndex[,20 user frequencies].
//
// The real code is called: constructor, InitModel, Eigens(), models.NewPij(model, x).Pij(i,j) for
// x ∈ {s, t, s+t}.  For the analytical models (JC, K2P) the eigen-system based value is obtained
// from the *real* models.Pij.SetLength by wrapping the model so that Analytical() reports false.
//
// Result: `ok ` followed by `;`-separated sections `name=v,v,…`, floats printed canonically
// (strconv.FormatFloat(x,'g',17,64), `NaN`, `+Inf`, `-Inf`):
//   n, pi, val, L, R (row-major), Ps, Pt, Pst (what goalign computes), Es, Et, Est (eigen-assembled,
//   analytical models only), res = residuals measured here on the Go side against an independent Go
//   transcription of the textbook rate matrix:
//     [ max|R·D·L − Q| , max|L·R − I| , max row-sum deviation , max|P(s+t) − P(s)P(t)| ,
//       max|π_i P_ij − π_j P_ji| , min entry , max entry ]   (P = goalign's matrices)
// or `err <stage>` when the library reports an error.

import (
	"fmt"
	"math"
	"strconv"
	"strings"

	"github.com/evolbioinfo/goalign/models"
	"github.com/evolbioinfo/goalign/models/dna"
	"github.com/evolbioinfo/goalign/models/protein"
	"gonum.org/v1/gonum/mat"
)

func ftoa(x float64) string {
	switch {
	case math.IsNaN(x):
		return "NaN"
	case math.IsInf(x, 1):
		return "+Inf"
	case math.IsInf(x, -1):
		return "-Inf"
	}
	return strconv.FormatFloat(x, 'g', 17, 64)
}

func atof(s string) float64 {
	v, err := strconv.ParseFloat(s, 64)
	if err != nil {
		panic("harness: bad float " + s)
	}
	return v
}

func floats(s string) []float64 {
	if s == "_" || s == "" {
		return nil
	}
	parts := strings.Split(s, ",")
	out := make([]float64, len(parts))
	for i, p := range parts {
		out[i] = atof(p)
	}
	return out
}

func encFloats(v []float64) string {
	parts := make([]string, len(v))
	for i, x := range v {
		parts[i] = ftoa(x)
	}
	return strings.Join(parts, ",")
}

// forceEigen makes models.Pij.SetLength take its eigen-system path for an analytical model.
type forceEigen struct{ models.Model }

func (forceEigen) Analytical() bool { return false }

func denseRowMajor(m *mat.Dense, n int) []float64 {
	out := make([]float64, 0, n*n)
	for i := 0; i < n; i++ {
		for j := 0; j < n; j++ {
			out = append(out, m.At(i, j))
		}
	}
	return out
}

func pmatrix(m models.Model, x float64) ([]float64, error) {
	n := m.NState()
	p, err := models.NewPij(m, x)
	if err != nil {
		return nil, err
	}
	out := make([]float64, 0, n*n)
	for i := 0; i < n; i++ {
		for j := 0; j < n; j++ {
			out = append(out, p.Pij(i, j))
		}
	}
	return out, nil
}

// textbookQ: independent Go transcription of the general reversible construction
// q_ij = s_ij·π_j (i≠j), q_ii = −Σ_{j≠i} q_ij, scaled by −Σ π_i q_ii, for the probability vector
// π/Σπ (a textbook model's frequencies sum to one).
func textbookQ(n int, s func(i, j int) float64, freqs []float64) []float64 {
	tot := 0.0
	for _, f := range freqs {
		tot += f
	}
	pi := make([]float64, n)
	for i := range pi {
		pi[i] = freqs[i] / tot
	}
	q := make([]float64, n*n)
	mr := 0.0
	for i := 0; i < n; i++ {
		sum := 0.0
		for j := 0; j < n; j++ {
			if i != j {
				q[i*n+j] = s(i, j) * pi[j]
				sum += q[i*n+j]
			}
		}
		q[i*n+i] = -sum
		mr += pi[i] * sum
	}
	for k := range q {
		q[k] /= mr
	}
	return q
}

func isTransition(i, j int) bool { return (i+j)%2 == 0 && i != j } // A=0,C=1,G=2,T=3: A<->G, C<->T

func protMats(idx int) (*mat.Dense, []float64) {
	switch idx {
	case protein.MODEL_DAYHOFF:
		return protein.DayoffMats()
	case protein.MODEL_JTT:
		return protein.JTTMats()
	case protein.MODEL_MTREV:
		return protein.MtREVMats()
	case protein.MODEL_LG:
		return protein.LGMats()
	case protein.MODEL_WAG:
		return protein.WAGMats()
	case protein.MODEL_HIVB:
		return protein.HIVBMats()
	case protein.MODEL_AB:
		return protein.ABMats()
	}
	panic("harness: bad protein model index")
}

// mkModel builds and initialises the real model; returns it with its frequencies, whether it is
// analytical, and the harness' own textbook rate matrix.
func mkModel(name string, p []float64) (m models.Model, pi []float64, q []float64, stage string) {
	need := func(k int) {
		if len(p) != k {
			panic("harness: " + name + " expects " + strconv.Itoa(k) + " parameters")
		}
	}
	uni := []float64{0.25, 0.25, 0.25, 0.25}
	switch name {
	case "jc":
		need(0)
		mm := dna.NewJCModel()
		if err := mm.InitModel(); err != nil {
			return nil, nil, nil, "init"
		}
		return mm, uni, textbookQ(4, func(i, j int) float64 { return 1 }, uni), ""
	case "k2p":
		need(1)
		mm := dna.NewK2PModel()
		mm.InitModel(p[0])
		return mm, uni, textbookQ(4, func(i, j int) float64 {
			if isTransition(i, j) {
				return p[0]
			}
			return 1
		}, uni), ""
	case "f81":
		need(4)
		mm := dna.NewF81Model()
		if err := mm.InitModel(p[0], p[1], p[2], p[3]); err != nil {
			return nil, nil, nil, "init"
		}
		return mm, p, textbookQ(4, func(i, j int) float64 { return 1 }, p), ""
	case "f84":
		need(5)
		mm := dna.NewF84Model()
		mm.InitModel(p[0], p[1], p[2], p[3], p[4])
		pi = p[1:]
		piR, piY := pi[0]+pi[2], pi[1]+pi[3]
		return mm, pi, textbookQ(4, func(i, j int) float64 {
			if isTransition(i, j) {
				if i%2 == 0 {
					return 1 + p[0]/piR
				}
				return 1 + p[0]/piY
			}
			return 1
		}, pi), ""
	case "tn93":
		need(6)
		mm := dna.NewTN93Model()
		if err := mm.InitModel(p[0], p[1], p[2], p[3], p[4], p[5]); err != nil {
			return nil, nil, nil, "init"
		}
		pi = p[2:]
		return mm, pi, textbookQ(4, func(i, j int) float64 {
			if isTransition(i, j) {
				if i%2 == 0 {
					return p[0]
				}
				return p[1]
			}
			return 1
		}, pi), ""
	case "gtr":
		need(10)
		mm := dna.NewGTRModel()
		if err := mm.InitModel(p[0], p[1], p[2], p[3], p[4], p[5], p[6], p[7], p[8], p[9]); err != nil {
			return nil, nil, nil, "init"
		}
		pi = p[6:]
		d, f, b, e, a, c := p[0], p[1], p[2], p[3], p[4], p[5]
		ex := [4][4]float64{{0, d, f, b}, {d, 0, e, a}, {f, e, 0, c}, {b, a, c, 0}}
		return mm, pi, textbookQ(4, func(i, j int) float64 { return ex[i][j] }, pi), ""
	case "prot":
		if len(p) != 1 && len(p) != 21 {
			panic("harness: prot expects index[,20 frequencies]")
		}
		idx := int(p[0])
		mm, err := protein.NewProtModel(idx, false, 0)
		if err != nil {
			return nil, nil, nil, "new"
		}
		var user []float64
		if len(p) == 21 {
			user = append([]float64{}, p[1:]...)
		}
		if err := mm.InitModel(user); err != nil {
			return nil, nil, nil, "init"
		}
		pi = make([]float64, 20)
		for i := range pi {
			pi[i] = mm.Pi(i)
		}
		smat, _ := protMats(idx) // a fresh, unscaled copy of the exchangeabilities
		return mm, pi, textbookQ(20, func(i, j int) float64 { return smat.At(i, j) }, pi), ""
	}
	panic("harness: unknown model " + name)
}

func maxAbs(xs ...float64) float64 {
	m := 0.0
	for _, x := range xs {
		if math.IsNaN(x) {
			return math.NaN()
		}
		if a := math.Abs(x); a > m {
			m = a
		}
	}
	return m
}

// reinit calls InitModel again on an existing model value (the reuse pattern of the package's own TestK2PPij)
func reinit(m models.Model, name string, p []float64) error {
	switch mm := m.(type) {
	case *dna.JCModel:
		return mm.InitModel()
	case *dna.K2PModel:
		mm.InitModel(p[0])
		return nil
	case *dna.F81Model:
		return mm.InitModel(p[0], p[1], p[2], p[3])
	case *dna.F84Model:
		mm.InitModel(p[0], p[1], p[2], p[3], p[4])
		return nil
	case *dna.TN93Model:
		return mm.InitModel(p[0], p[1], p[2], p[3], p[4], p[5])
	case *dna.GTRModel:
		return mm.InitModel(p[0], p[1], p[2], p[3], p[4], p[5], p[6], p[7], p[8], p[9])
	case *protein.ProtModel:
		var user []float64
		if len(p) == 21 {
			user = append([]float64{}, p[1:]...)
		}
		return mm.InitModel(user)
	}
	panic("harness: reinit of an unknown model type")
}

func pmatrixLive(pij *models.Pij, n int, x float64) ([]float64, error) {
	if err := pij.SetLength(x); err != nil {
		return nil, err
	}
	out := make([]float64, 0, n*n)
	for i := 0; i < n; i++ {
		for j := 0; j < n; j++ {
			out = append(out, pij.Pij(i, j))
		}
	}
	return out, nil
}

func init() {
	register("c18", func(a []string) string { return opC18(a[0], nil, floats(a[1]), atof(a[2]), atof(a[3])) })
	// c18re <model> <params0> <params> <s> <t>: the model value and a Pij are first used with params0, the model is then
	// initialised again with params and the SAME Pij object answers; everything reported is about params
	register("c18re", func(a []string) string { return opC18(a[0], floats(a[1]), floats(a[2]), atof(a[3]), atof(a[4])) })
	// c18seq <model> <params> <t1,t2,...>: ONE Pij object is set to the lengths in turn; after every SetLength its matrix
	// must be the matrix of a fresh Pij at that length (the fresh matrix is what the c18 cases judge against exp(tQ)):
	// "same" | "differs step=<k> t=<t> maxabs=<d>"
	register("c18seq", func(a []string) string {
		m, _, _, stage := mkModel(a[0], floats(a[1]))
		if stage != "" {
			return "err " + stage
		}
		ts := floats(a[2])
		if len(ts) == 0 {
			return "err no-lengths"
		}
		live, err := models.NewPij(m, ts[0])
		if err != nil {
			return "err pij0"
		}
		for k, t := range ts {
			got, err := pmatrixLive(live, m.NState(), t)
			if err != nil {
				return "err setlength"
			}
			want, err := pmatrix(m, t)
			if err != nil {
				return "err fresh"
			}
			d := 0.0
			for i := range got {
				if x := math.Abs(got[i] - want[i]); x > d || x != x {
					d = x
				}
			}
			if !(d <= 1e-12) {
				return fmt.Sprintf("differs step=%d t=%v maxabs=%g", k, t, d)
			}
		}
		return "same"
	})
}

func opC18(name string, p0, p []float64, s, t float64) string {
	{
		var m models.Model
		var pi, q []float64
		var stage string
		var live *models.Pij
		if p0 == nil {
			m, pi, q, stage = mkModel(name, p)
		} else {
			if name == "prot" && int(p0[0]) != int(p[0]) {
				panic("harness: c18re keeps the protein model index")
			}
			m, _, _, stage = mkModel(name, p0)
			if stage == "" {
				var err error
				if live, err = models.NewPij(m, 0.37); err != nil {
					return "err pij0"
				}
				if err = reinit(m, name, p); err != nil {
					return "err init"
				}
				_, pi, q, stage = mkModel(name, p) // a fresh twin: frequencies and the textbook matrix of params
			}
		}
		if stage != "" {
			return "err " + stage
		}
		pm := func(mm models.Model, x float64) ([]float64, error) {
			if live != nil && mm == m {
				return pmatrixLive(live, m.NState(), x)
			}
			return pmatrix(mm, x)
		}
		n := m.NState()
		val, left, right, err := m.Eigens()
		if err != nil {
			return "err eigens"
		}
		L, R := denseRowMajor(left, n), denseRowMajor(right, n)
		ps, e1 := pm(m, s)
		pt, e2 := pm(m, t)
		pst, e3 := pm(m, s+t)
		if e1 != nil || e2 != nil || e3 != nil {
			return "err pij"
		}
		var sb strings.Builder
		sb.WriteString("ok n=" + strconv.Itoa(n))
		sb.WriteString(";pi=" + encFloats(pi))
		sb.WriteString(";val=" + encFloats(val))
		sb.WriteString(";L=" + encFloats(L))
		sb.WriteString(";R=" + encFloats(R))
		sb.WriteString(";Ps=" + encFloats(ps))
		sb.WriteString(";Pt=" + encFloats(pt))
		sb.WriteString(";Pst=" + encFloats(pst))
		if m.Analytical() {
			fe := forceEigen{m}
			es, e1 := pmatrix(fe, s)
			et, e2 := pmatrix(fe, t)
			est, e3 := pmatrix(fe, s+t)
			if e1 != nil || e2 != nil || e3 != nil {
				return "err pij-eigen"
			}
			sb.WriteString(";Es=" + encFloats(es))
			sb.WriteString(";Et=" + encFloats(et))
			sb.WriteString(";Est=" + encFloats(est))
		}
		// residuals measured on the Go side
		resQ, resLR, rowdev, semi, db := 0.0, 0.0, 0.0, 0.0, 0.0
		minE, maxE := math.Inf(1), math.Inf(-1)
		for i := 0; i < n; i++ {
			for j := 0; j < n; j++ {
				rdl, lr := 0.0, 0.0
				for k := 0; k < n; k++ {
					rdl += R[i*n+k] * val[k] * L[k*n+j]
					lr += L[i*n+k] * R[k*n+j]
				}
				if i == j {
					lr -= 1
				}
				resQ = maxAbs(resQ, rdl-q[i*n+j])
				resLR = maxAbs(resLR, lr)
			}
		}
		for _, P := range [][]float64{ps, pt, pst} {
			for i := 0; i < n; i++ {
				sum := 0.0
				for j := 0; j < n; j++ {
					v := P[i*n+j]
					sum += v
					minE, maxE = math.Min(minE, v), math.Max(maxE, v)
					db = maxAbs(db, pi[i]*v-pi[j]*P[j*n+i])
				}
				rowdev = maxAbs(rowdev, sum-1)
			}
		}
		for i := 0; i < n; i++ {
			for j := 0; j < n; j++ {
				v := 0.0
				for k := 0; k < n; k++ {
					v += ps[i*n+k] * pt[k*n+j]
				}
				semi = maxAbs(semi, v-pst[i*n+j])
			}
		}
		sb.WriteString(";res=" + encFloats([]float64{resQ, resLR, rowdev, semi, db, minE, maxE}))
		return sb.String()
	}
}
