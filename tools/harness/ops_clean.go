package main

// C12 (cleaning) and the MaxCharStats part of C14.

import (
	"fmt"
	"strings"

)

func plus(v []int) string { return strings.ReplaceAll(encInts(v), ",", "+") }

func init() {
	// rmsites <alphabet> <rows> <chars> <cutoff> <ends> <ignoreCase> <ignoreGaps> <ignoreNs> <reverse>
	register("rmsites", func(a []string) string {
		al := alFrom(a[1], atoi(a[0]))
		first, last, kept, rm := al.RemoveCharacterSites([]uint8(a[2]), parseFrac(a[3]), atob(a[4]), atob(a[5]), atob(a[6]), atob(a[7]), atob(a[8]))
		return fmt.Sprintf("%d %d %s %s %d %s", first, last, plus(kept), plus(rm), al.Length(), encRows(rowsOf(al)))
	})
	// rmmajsites <alphabet> <rows> <cutoff> <ends> <ignoreGaps> <ignoreNs>
	register("rmmajsites", func(a []string) string {
		al := alFrom(a[1], atoi(a[0]))
		first, last, kept, rm := al.RemoveMajorityCharacterSites(parseFrac(a[2]), atob(a[3]), atob(a[4]), atob(a[5]))
		return fmt.Sprintf("%d %d %s %s %d %s", first, last, plus(kept), plus(rm), al.Length(), encRows(rowsOf(al)))
	})
	// maxchar <alphabet> <rows> <ignoreGaps> <ignoreNs> <repeat>: the call is repeated to expose any
	// dependence on map iteration order; all distinct answers are reported
	register("maxchar", func(a []string) string {
		al := alFrom(a[1], atoi(a[0]))
		seen := map[string]bool{}
		order := []string{}
		for i := 0; i < atoi(a[4]); i++ {
			out, occ, tot := al.MaxCharStats(atob(a[2]), atob(a[3]))
			s := string(out) + " " + plus(occ) + " " + plus(tot)
			if !seen[s] {
				seen[s] = true
				order = append(order, s)
			}
		}
		if len(order) == 1 {
			return order[0]
		}
		return fmt.Sprintf("NONDETERMINISTIC(%d) %s", len(order), order[0])
	})
	// consensus <alphabet> <rows> <ignoreGaps> <ignoreNs> <repeat>
	register("consensus", func(a []string) string {
		al := alFrom(a[1], atoi(a[0]))
		seen := map[string]bool{}
		first := ""
		for i := 0; i < atoi(a[4]); i++ {
			c := al.Consensus(atob(a[2]), atob(a[3]))
			s := encRows(rowsOf(c))
			if first == "" {
				first = s
			}
			seen[s] = true
		}
		if len(seen) == 1 {
			return first
		}
		return fmt.Sprintf("NONDETERMINISTIC(%d) %s", len(seen), first)
	})
}

func init() {
	// C13
	// dedup <alphabet> <rows> <nAsGap>
	register("dedup", func(a []string) string {
		al := alFrom(a[1], atoi(a[0]))
		id, err := al.Deduplicate(atob(a[2]))
		if err != nil {
			return "err"
		}
		g := make([]string, len(id))
		for i, grp := range id {
			g[i] = strings.Join(grp, "+")
		}
		// idempotence: a second pass keeps everything and reports singleton groups
		id2, _ := al.Deduplicate(atob(a[2]))
		single := true
		for _, grp := range id2 {
			if len(grp) != 1 {
				single = false
			}
		}
		return fmt.Sprintf("ok %d %s %s idem=%s", al.Length(), encRows(rowsOf(al)), strJoin(g), btoa(single && len(id2) == len(id)))
	})
	// dedupbag <alphabet> <rows of any lengths> <nasgap>: the same on a sequence SET (goalign dedup --unaligned)
	register("dedupbag", func(a []string) string {
		sb := mkBag(atoi(a[0]), decRows(a[1]))
		id, err := sb.Deduplicate(atob(a[2]))
		if err != nil {
			return "err"
		}
		g := make([]string, len(id))
		for i, grp := range id {
			g[i] = strings.Join(grp, "+")
		}
		id2, _ := sb.Deduplicate(atob(a[2]))
		single := true
		for _, grp := range id2 {
			if len(grp) != 1 {
				single = false
			}
		}
		return fmt.Sprintf("ok %s %s idem=%s", encRows(rowsOf(sb)), strJoin(g), btoa(single && len(id2) == len(id)))
	})
	// compress <alphabet> <rows>
	register("compress", func(a []string) string {
		al := alFrom(a[1], atoi(a[0]))
		w := al.Compress()
		return fmt.Sprintf("%d %s %s", al.Length(), plus(w), encRows(rowsOf(al)))
	})
}

func init() {
	// C15
	// mask <alphabet> <rows> <refseq|_> <start> <len> <replace> <nogap> <noref>
	register("mask", func(a []string) string {
		al := alFrom(a[1], atoi(a[0]))
		ref := a[2]
		if ref == "_" {
			ref = ""
		}
		rep := a[5]
		if rep == "_" {
			rep = ""
		}
		if err := al.Mask(ref, atoi(a[3]), atoi(a[4]), rep, atob(a[6]), atob(a[7])); err != nil {
			return "err"
		}
		return fmt.Sprintf("ok %d %s", al.Length(), encRows(rowsOf(al)))
	})
	// maskocc <alphabet> <rows> <refseq|_> <maxocc> <replace>
	register("maskocc", func(a []string) string {
		al := alFrom(a[1], atoi(a[0]))
		ref := a[2]
		if ref == "_" {
			ref = ""
		}
		rep := a[4]
		if rep == "_" {
			rep = ""
		}
		if err := al.MaskOccurences(ref, atoi(a[3]), rep); err != nil {
			return "err"
		}
		return fmt.Sprintf("ok %d %s", al.Length(), encRows(rowsOf(al)))
	})
}
