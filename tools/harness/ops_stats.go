package main

// C14: column statistics.  Floats are printed as IEEE bit patterns plus a decimal rendering:
// `f:<bits hex>:<%.17g>`; every float-valued call is repeated and all distinct bit patterns reported.

import (
	"fmt"
	"math"
	"sort"
	"strings"

	"github.com/evolbioinfo/goalign/align"
)

func fstr(x float64) string {
	return fmt.Sprintf("f:%016x:%.17g", math.Float64bits(x), x)
}

func encStrIntMap(m map[string]int) string {
	keys := make([]string, 0, len(m))
	for k := range m {
		keys = append(keys, k)
	}
	sort.Strings(keys)
	parts := make([]string, len(keys))
	for i, k := range keys {
		parts[i] = fmt.Sprintf("%s=%d", k, m[k])
	}
	if len(parts) == 0 {
		return "_"
	}
	return strings.Join(parts, "+")
}

func init() {
	register("charstats", func(a []string) string {
		al := alFrom(a[1], atoi(a[0]))
		m := al.CharStats()
		m2 := map[uint8]int{}
		for k, v := range m {
			m2[k] = int(v)
		}
		return encCharMap(m2) + " " + hexs(al.UniqueCharacters())
	})
	register("charstatsseq", func(a []string) string {
		al := alFrom(a[1], atoi(a[0]))
		m, err := al.CharStatsSeq(atoi(a[2]))
		if err != nil {
			return "err"
		}
		return "ok " + encCharMap(m)
	})
	register("charstatssite", func(a []string) string {
		al := alFrom(a[1], atoi(a[0]))
		m, err := al.CharStatsSite(atoi(a[2]))
		if err != nil {
			return "err"
		}
		return "ok " + encCharMap(m)
	})
	// entropy <alphabet> <rows> <site> <removegaps> <repeat>
	register("entropy", func(a []string) string {
		al := alFrom(a[1], atoi(a[0]))
		seen := map[string]bool{}
		first := ""
		for i := 0; i < atoi(a[4]); i++ {
			e, err := al.Entropy(atoi(a[2]), atob(a[3]))
			s := "err"
			if err == nil {
				s = "ok " + fstr(e)
			}
			if first == "" {
				first = s
			}
			seen[s] = true
		}
		if len(seen) > 1 {
			return fmt.Sprintf("NONDETERMINISTIC(%d) %s", len(seen), first)
		}
		return first
	})
	register("sitecounts", func(a []string) string {
		al := alFrom(a[1], atoi(a[0]))
		return fmt.Sprintf("%d %s %s", al.NbVariableSites(), plus(al.InformativeSites()), fstr(al.AvgAllelesPerSite()))
	})
	register("countdiffs", func(a []string) string {
		al := alFrom(a[1], atoi(a[0]))
		all, diffs := al.CountDifferences()
		parts := make([]string, len(diffs))
		for i, d := range diffs {
			parts[i] = encStrIntMap(d)
		}
		return strJoin(all) + " " + strJoin(parts)
	})
	register("uniques", func(a []string) string {
		al := alFrom(a[1], atoi(a[0]))
		g1, g2, g3, err1 := al.NumGapsUniquePerSequence(nil)
		m1, m2, m3, err2 := al.NumMutationsUniquePerSequence(nil)
		if err1 != nil || err2 != nil {
			return "err"
		}
		return plus(g1) + " " + plus(g2) + " " + plus(g3) + " " + plus(m1) + " " + plus(m2) + " " + plus(m3)
	})
	// uniquesprof: with a profile built from a second alignment
	register("uniquesprof", func(a []string) string {
		al := alFrom(a[1], atoi(a[0]))
		pal := alFrom(a[2], atoi(a[0]))
		prof := align.NewCountProfileFromAlignment(pal)
		g1, g2, g3, err1 := al.NumGapsUniquePerSequence(prof)
		m1, m2, m3, err2 := al.NumMutationsUniquePerSequence(prof)
		if err1 != nil || err2 != nil {
			return "err"
		}
		return plus(g1) + " " + plus(g2) + " " + plus(g3) + " " + plus(m1) + " " + plus(m2) + " " + plus(m3)
	})
	// profile <alphabet> <rows> <char code> <site> : NewCountProfileFromAlignment; header (hex), the counts of every
	// header character at every site, Count(char, site), and whether the length check accepts L (and rejects L+1)
	register("profile", func(a []string) string {
		al := alFrom(a[1], atoi(a[0]))
		p := align.NewCountProfileFromAlignment(al)
		n := p.NbCharacters()
		header := make([]uint8, n)
		counts := make([]string, n)
		for i := 0; i < n; i++ {
			c, err := p.NameAt(i)
			if err != nil {
				return "err-nameat"
			}
			header[i] = c
			v, err := p.CountsAt(i)
			if err != nil {
				return "err-countsat"
			}
			counts[i] = plus(v)
		}
		cnt := "err"
		if c, err := p.Count(uint8(atoi(a[2])), atoi(a[3])); err == nil {
			cnt = "ok:" + itoa(c)
		}
		outside := func(err error) string {
			if err != nil {
				return "err"
			}
			return "ok"
		}
		_, e1 := p.CountsAt(n)
		_, e2 := p.CountsAt(-1)
		_, e3 := p.NameAt(n)
		return hexz(header) + " " + strJoin(counts) + " " + cnt + " " + btoa(p.CheckLength(al.Length())) + btoa(p.CheckLength(al.Length()+1)) +
			" " + outside(e1) + " " + outside(e2) + " " + outside(e3)
	})
	// refmuts <alphabet> <seq> <ref>
	register("refmuts", func(a []string) string {
		s := align.NewSequence("s", []uint8(a[1]), "")
		r := align.NewSequence("r", []uint8(a[2]), "")
		n, err := s.NumMutationsComparedToReferenceSequence(atoi(a[0]), r)
		l, err2 := s.ListMutationsComparedToReferenceSequence(atoi(a[0]), r, false)
		if err != nil || err2 != nil {
			return "err"
		}
		parts := make([]string, len(l))
		for i, m := range l {
			parts[i] = fmt.Sprintf("%d.%d.%s", m.Ref, m.Pos, hexs(m.Alt))
		}
		return fmt.Sprintf("ok %d %s", n, strJoin(parts))
	})
	// refmutsaa <alphabet> <seq> <ref>: the codon-wise list (aa = true)
	register("refmutsaa", func(a []string) string {
		s := align.NewSequence("s", []uint8(a[1]), "")
		r := align.NewSequence("r", []uint8(a[2]), "")
		l, err := s.ListMutationsComparedToReferenceSequence(atoi(a[0]), r, true)
		if err != nil {
			return "err"
		}
		parts := make([]string, len(l))
		for i, m := range l {
			parts[i] = fmt.Sprintf("%d.%d.%s", m.Ref, m.Pos, hexs(m.Alt))
		}
		return "ok " + strJoin(parts)
	})
	register("compat", func(a []string) string {
		ok, err := align.EqualOrCompatible(uint8(atoi(a[0])), uint8(atoi(a[1])))
		d, err2 := align.NtIUPACDifference(uint8(atoi(a[0])), uint8(atoi(a[1])))
		if err != nil || err2 != nil {
			return "err"
		}
		return fmt.Sprintf("ok %s %s", btoa(ok), fstr(d))
	})
	// pssm <alphabet> <rows> <log> <pseudo num/den> <norm> <repeat>
	register("pssm", func(a []string) string {
		al := alFrom(a[1], atoi(a[0]))
		seen := map[string]bool{}
		first := ""
		for i := 0; i < atoi(a[5]); i++ {
			p, err := al.Pssm(atob(a[2]), parseFrac(a[3]), atoi(a[4]))
			s := "err"
			if err == nil {
				keys := make([]int, 0, len(p))
				for k := range p {
					keys = append(keys, int(k))
				}
				sort.Ints(keys)
				parts := []string{}
				for _, k := range keys {
					vs := make([]string, len(p[uint8(k)]))
					for j, v := range p[uint8(k)] {
						vs[j] = fstr(v)
					}
					parts = append(parts, fmt.Sprintf("%d=%s", k, strings.Join(vs, "+")))
				}
				s = "ok " + strJoin(parts)
			}
			if first == "" {
				first = s
			}
			seen[s] = true
		}
		if len(seen) > 1 {
			return fmt.Sprintf("NONDETERMINISTIC(%d) %s", len(seen), first)
		}
		return first
	})
}

// Frameshifts / Stops (the statistics `goalign phasent` logs): `frameshifts <alpha> <rows> <flag>` answers
// `S-E,S-E,…` (one entry per row, the first is the zero value); `stops <alpha> <rows> <flag> <code>` answers
// `ok p,p,…` / `err`.  Each call is made twice on fresh alignments: both answers must agree.
func init() {
	register("frameshifts", func(a []string) string {
		one := func() string {
			al := alFrom(a[1], atoi(a[0]))
			fs := al.Frameshifts(a[2] == "1")
			parts := make([]string, len(fs))
			for i, f := range fs {
				parts[i] = fmt.Sprintf("%d-%d", f.Start, f.End)
			}
			return strJoin(parts)
		}
		r1, r2 := one(), one()
		if r1 != r2 {
			return "NONDETERMINISTIC " + r1
		}
		return r1
	})
	register("stops", func(a []string) string {
		one := func() string {
			al := alFrom(a[1], atoi(a[0]))
			st, err := al.Stops(a[2] == "1", atoi(a[3]))
			if err != nil {
				return "err"
			}
			parts := make([]string, len(st))
			for i, p := range st {
				parts[i] = itoa(p)
			}
			return "ok " + strJoin(parts)
		}
		r1, r2 := one(), one()
		if r1 != r2 {
			return "NONDETERMINISTIC " + r1
		}
		return r1
	})
}
