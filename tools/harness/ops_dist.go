package main

import (
	"fmt"
	"math"
	"strconv"
	"strings"

	"github.com/evolbioinfo/goalign/align"
	"github.com/evolbioinfo/goalign/distance/dna"
)

// C07 -----------------------------------------------------------------------------------------
//
// distmatrix <model> <rmgaps> <gapmode> <rmambiguous> <gamma> <alpha> <weights> <ranges> <rows>
//
//   model    rawdist | pdist | jc | k2p | f81 | f84 | tn93   (built as cmd/computedist.go builds it)
//   gapmode  countgapmut of pdist / rawdist (0 none, 1 internal, 2 all)
//   alpha    n or n/d (naturals): the float64 quotient — the Lean side performs the same division
//   weights  `_` (nil) or a comma separated list of n or n/d
//   ranges   r1min,r1max,r2min,r2max (-1,-1,-1,-1: whole matrix)
//
// Result: `err` or `ok r;r;…` with every row a comma separated list of IEEE-754 bit patterns
// (16 hex digits): exact, no decimal round trip.  One worker thread (threads are property C08).

func ratio(s string) float64 {
	p := strings.Split(s, "/")
	switch len(p) {
	case 1:
		return float64(atoi(p[0]))
	case 2:
		return float64(atoi(p[0])) / float64(atoi(p[1]))
	}
	panic("harness: bad ratio " + s)
}

func encMatrix(m [][]float64) string {
	rows := make([]string, len(m))
	for i, r := range m {
		cells := make([]string, len(r))
		for j, x := range r {
			cells[j] = fmt.Sprintf("%016x", math.Float64bits(x))
		}
		rows[i] = strings.Join(cells, ",")
	}
	return strings.Join(rows, ";")
}

func distMatrixOp(a []string) string {
	rmgaps, gapmode, rmamb, gamma := atob(a[1]), atoi(a[2]), atob(a[3]), atob(a[4])
	alpha := ratio(a[5])
	var weights []float64
	if a[6] != "_" {
		for _, w := range strings.Split(a[6], ",") {
			weights = append(weights, ratio(w))
		}
	}
	r := ints(a[7])
	if len(r) != 4 {
		panic("harness: bad ranges")
	}
	al, err := mkAlign(align.NUCLEOTIDS, decRows(a[8]))
	if err != nil {
		return "err-build"
	}
	var model dna.DistModel
	switch a[0] {
	case "rawdist":
		m := dna.NewRawDistModel(rmgaps)
		if err = m.SetCountGapMutations(gapmode); err != nil {
			return "err"
		}
		model = m
	case "pdist":
		m := dna.NewPDistModel(rmgaps)
		m.SetRemoveAmbiguous(rmamb)
		if err = m.SetCountGapMutations(gapmode); err != nil {
			return "err"
		}
		model = m
	default:
		if model, err = dna.Model(a[0], rmgaps); err != nil {
			return "err"
		}
	}
	// optional a[9]: rows of another alignment the SAME model object computes first (as `compute distance` does for the
	// alignments of its input and `distboot` for its replicates): what the model answers for `al` must not depend on it
	if len(a) > 9 && a[9] != "_" {
		if warm, werr := mkAlign(align.NUCLEOTIDS, decRows(a[9])); werr == nil {
			var ww []float64
			if weights != nil && warm.Length() == len(weights) {
				ww = weights
			}
			dna.DistMatrix(warm, ww, model, -1, -1, -1, -1, gamma, alpha, 1)
		}
	}
	mat, err := dna.DistMatrix(al, weights, model, r[0], r[1], r[2], r[3], gamma, alpha, 1)
	if err != nil {
		return "err"
	}
	return "ok " + encMatrix(mat)
}

// distdec: human-readable rendering of a `distmatrix` result (used by --replay output only)
func decodeMatrix(s string) string {
	if !strings.HasPrefix(s, "ok ") {
		return s
	}
	var b strings.Builder
	for i, row := range strings.Split(s[3:], ";") {
		if i > 0 {
			b.WriteString(" ; ")
		}
		for j, c := range strings.Split(row, ",") {
			if j > 0 {
				b.WriteString(" ")
			}
			u, err := strconv.ParseUint(c, 16, 64)
			if err != nil {
				b.WriteString("?")
				continue
			}
			b.WriteString(strconv.FormatFloat(math.Float64frombits(u), 'g', 17, 64))
		}
	}
	return b.String()
}

func init() {
	register("distmatrix", distMatrixOp)
	// same computation; the oracle answers with the model variant(s) that reproduce the result
	register("distvariant", distMatrixOp)
	// same computation; the oracle's verdict also names the pair, the entry and the published value
	register("distexplain", distMatrixOp)
	// distshow: the matrix in decimal (strconv 'g', 17 digits), for people reading a replay
	register("distshow", func(a []string) string { return decodeMatrix(distMatrixOp(a)) })
}
