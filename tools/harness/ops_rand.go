package main

// C10: randomised operations, replayed exactly from a seed.
//   rnd <op> <seed> <alphabet> <rows> <params...>
// Floats are passed as `num/den` and converted exactly like the oracle does (float64(num)/float64(den)).

import (
	"math/rand"
	"strings"

)

func init() {
	register("rnd", func(a []string) string {
		op := a[0]
		seed := int64(atoi(a[1]))
		alpha := atoi(a[2])
		al, err := mkAlign(alpha, decRows(a[3]))
		if err != nil {
			return "err-build"
		}
		p := a[4:]
		rand.Seed(seed)
		switch op {
		case "shuffle":
			al.ShuffleSequences()
			return encRows(rowsOf(al))
		case "bootstrap":
			b := al.BuildBootstrap(parseFrac(p[0]))
			return itoa(b.Length()) + " " + encRows(rowsOf(b))
		case "sample":
			s, err := al.Sample(atoi(p[0]))
			if err != nil {
				return "err"
			}
			return "ok " + encRows(rowsOf(s))
		case "subalign":
			s, err := al.RandSubAlign(atoi(p[0]), atob(p[1]))
			if err != nil {
				return "err"
			}
			return "ok " + encRows(rowsOf(s))
		case "mutate":
			al.Mutate(parseFrac(p[0]))
			return encRows(rowsOf(al))
		case "addgaps":
			al.AddGaps(parseFrac(p[0]), parseFrac(p[1]))
			return encRows(rowsOf(al))
		case "swap":
			if err := al.Swap(parseFrac(p[0]), parseFracSigned(p[1])); err != nil {
				return "err"
			}
			return "ok " + encRows(rowsOf(al))
		case "recombine":
			if err := al.Recombine(parseFrac(p[0]), parseFrac(p[1]), atob(p[2])); err != nil {
				return "err"
			}
			return "ok " + encRows(rowsOf(al))
		case "rogue":
			r, in := al.SimulateRogue(parseFrac(p[0]), parseFrac(p[1]))
			return encRows(rowsOf(al)) + " " + strJoin(r) + " " + strJoin(in)
		case "twice":
			// determinism: the same seed twice gives the same bytes (shuffle + bootstrap + mutate)
			run := func() string {
				rand.Seed(seed)
				c, _ := al.Clone()
				c.ShuffleSequences()
				b := c.BuildBootstrap(1.0)
				b.Mutate(0.3)
				return encRows(rowsOf(b))
			}
			x, y := run(), run()
			if x == y {
				return "same"
			}
			return "different"
		}
		return "bad-op"
	})
}

func strJoin(v []string) string {
	if len(v) == 0 {
		return "_"
	}
	return strings.Join(v, ",")
}

func parseFracSigned(s string) float64 {
	if strings.HasPrefix(s, "-") {
		return -parseFrac(s[1:])
	}
	return parseFrac(s)
}
