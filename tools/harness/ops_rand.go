package main

// C10: randomised operations, replayed exactly from a seed.
//   rnd <op> <seed> <alphabet> <rows> <params...>
// Floats are passed as `num/den` and converted exactly like the oracle does (float64(num)/float64(den)).

import (
	"math/rand"
	"sort"
	"strings"

)

func init() {
	register("rnd", func(a []string) string {
		op := a[0]
		seed := int64(atoi(a[1]))
		alpha := atoi(a[2])
		al, err := mkAlign(alpha, decRows(a[3]))
		if err != nil {
			return "err-build"
		}
		p := a[4:]
		rand.Seed(seed)
		switch op {
		case "shuffle":
			al.ShuffleSequences()
			return encRows(rowsOf(al))
		case "bootstrap":
			b := al.BuildBootstrap(parseFrac(p[0]))
			return itoa(b.Length()) + " " + encRows(rowsOf(b))
		case "sample":
			s, err := al.Sample(atoi(p[0]))
			if err != nil {
				return "err"
			}
			return "ok " + encRows(rowsOf(s))
		case "subalign":
			s, err := al.RandSubAlign(atoi(p[0]), atob(p[1]))
			if err != nil {
				return "err"
			}
			return "ok " + encRows(rowsOf(s))
		case "mutate":
			al.Mutate(parseFrac(p[0]))
			return encRows(rowsOf(al))
		case "addgaps":
			al.AddGaps(parseFrac(p[0]), parseFrac(p[1]))
			return encRows(rowsOf(al))
		case "swap":
			if err := al.Swap(parseFrac(p[0]), parseFracSigned(p[1])); err != nil {
				return "err"
			}
			return "ok " + encRows(rowsOf(al))
		case "recombine":
			if err := al.Recombine(parseFrac(p[0]), parseFrac(p[1]), atob(p[2])); err != nil {
				return "err"
			}
			return "ok " + encRows(rowsOf(al))
		case "rogue":
			r, in := al.SimulateRogue(parseFrac(p[0]), parseFrac(p[1]))
			return encRows(rowsOf(al)) + " " + strJoin(r) + " " + strJoin(in)
		case "shufflesites":
			// rates outside [0,1] make the library call os.Exit: the driver only sends rates inside
			rg := al.ShuffleSites(parseFrac(p[0]), parseFrac(p[1]), atob(p[2]))
			return encRows(rowsOf(al)) + " " + strJoin(rg)
		case "rarefy":
			// rarefy <nb> <name=count;...>: three runs from the same seed must agree
			counts := map[string]int{}
			if p[1] != "_" {
				for _, kv := range strings.Split(p[1], ";") {
					i := strings.IndexByte(kv, '=')
					counts[kv[:i]] = atoi(kv[i+1:])
				}
			}
			run := func() string {
				rand.Seed(seed)
				s, err := al.Rarefy(atoi(p[0]), counts)
				if err != nil {
					return "err"
				}
				return "ok " + encRows(rowsOf(s))
			}
			first := run()
			for k := 0; k < 4; k++ {
				if again := run(); again != first {
					return "nondet " + first + " | " + again
				}
			}
			return first
		case "support":
			// `K` independent runs after one rand.Seed: which admissible outcomes were reached.
			// Columns / rows of the input are distinct (the oracle checks), so an outcome is identified by content.
			what, par, K := p[0], p[1], atoi(p[2])
			in := rowsOf(al)
			colOf := func(rows []Row, j int) string {
				b := make([]byte, len(rows))
				for i, r := range rows {
					b[i] = r.Seq[j]
				}
				return string(b)
			}
			colIdx := map[string]int{}
			for j := 0; j < al.Length(); j++ {
				colIdx[colOf(in, j)] = j
			}
			rowIdx := map[string]int{}
			for i, r := range in {
				rowIdx[r.Name] = i
			}
			seen := map[string]bool{}
			for k := 0; k < K; k++ {
				switch what {
				case "bootstrap":
					o := rowsOf(al.BuildBootstrap(parseFrac(par)))
					if len(o) > 0 {
						for j := 0; j < len(o[0].Seq); j++ {
							if x, ok := colIdx[colOf(o, j)]; ok {
								seen[itoa(x)] = true
							} else {
								seen["foreign"] = true
							}
						}
					}
				case "sample":
					sm, err := al.Sample(atoi(par))
					if err != nil {
						return "err"
					}
					// every single run must return `par` pairwise distinct rows of the input (name and residues)
					got := rowsOf(sm)
					dup := map[int]bool{}
					if len(got) != atoi(par) {
						seen["foreign"] = true
					}
					for _, r := range got {
						x, ok := rowIdx[r.Name]
						if !ok || in[x].Seq != r.Seq || dup[x] {
							seen["foreign"] = true
							continue
						}
						dup[x] = true
						seen[itoa(x)] = true
					}
				case "window", "columns":
					sm, err := al.RandSubAlign(atoi(par), what == "window")
					if err != nil {
						return "err"
					}
					o := rowsOf(sm)
					if len(o) > 0 && len(o[0].Seq) > 0 {
						if what == "window" {
							seen[itoa(colIdx[colOf(o, 0)])] = true
						} else {
							for j := 0; j < len(o[0].Seq); j++ {
								seen[itoa(colIdx[colOf(o, j)])] = true
							}
						}
					}
				case "rogue", "shufflesites", "addgaps", "mutate":
					// which columns can be touched at all: every column must be, sooner or later
					c, _ := al.Clone()
					switch what {
					case "rogue":
						c.SimulateRogue(1.0, parseFrac(par))
					case "shufflesites":
						c.ShuffleSites(parseFrac(par), 0, false)
					case "addgaps":
						c.AddGaps(parseFrac(par), 1.0)
					case "mutate":
						c.Mutate(parseFrac(par))
					}
					o := rowsOf(c)
					for i := range o {
						for j := 0; j < len(o[i].Seq) && j < len(in[i].Seq); j++ {
							if o[i].Seq[j] != in[i].Seq[j] {
								seen[itoa(j)] = true
							}
						}
					}
				case "rarefy":
					// par = "<nb>:<count of row 0>,<count of row 1>,...": every counted row must be drawn sooner or later
					f := strings.SplitN(par, ":", 2)
					counts := map[string]int{}
					for i, c := range strings.Split(f[1], ",") {
						if i < len(in) && atoi(c) > 0 {
							counts[in[i].Name] = atoi(c)
						}
					}
					sm, err := al.Rarefy(atoi(f[0]), counts)
					if err != nil {
						return "err"
					}
					for _, r := range rowsOf(sm) {
						x, ok := rowIdx[r.Name]
						if !ok || in[x].Seq != r.Seq || counts[r.Name] == 0 {
							seen["foreign"] = true
							continue
						}
						seen[itoa(x)] = true
					}
				case "shuffle":
					c, _ := al.Clone()
					c.ShuffleSequences()
					nm := ""
					for _, r := range rowsOf(c) {
						nm += itoa(rowIdx[r.Name])
					}
					seen[nm] = true
				default:
					return "bad-op"
				}
			}
			keys := make([]string, 0, len(seen))
			for k := range seen {
				keys = append(keys, k)
			}
			sort.Slice(keys, func(i, j int) bool {
				if len(keys[i]) != len(keys[j]) {
					return len(keys[i]) < len(keys[j])
				}
				return keys[i] < keys[j]
			})
			return strJoin(keys)
		case "twice":
			// determinism: the same seed twice gives the same bytes (shuffle + bootstrap + mutate)
			run := func() string {
				rand.Seed(seed)
				c, _ := al.Clone()
				c.ShuffleSequences()
				b := c.BuildBootstrap(1.0)
				b.Mutate(0.3)
				return encRows(rowsOf(b))
			}
			x, y := run(), run()
			if x == y {
				return "same"
			}
			return "different"
		case "twiceobj":
			// replay on the SAME alignment object: the producers that leave the alignment unchanged are run from the seed,
			// then other draws are made from another seed with other arguments, then the first run is repeated: state kept
			// inside the object (a cached permutation, a buffer) must not change what the seed gives
			n, L := al.NbSequences(), al.Length()
			half := func(x int) int {
				if x/2 < 1 {
					return 1
				}
				return x / 2
			}
			run := func() string {
				rand.Seed(seed)
				parts := []string{}
				if sm, err := al.Sample(half(n)); err == nil {
					parts = append(parts, encRows(rowsOf(sm)))
				}
				if sm, err := al.RandSubAlign(half(L), true); err == nil {
					parts = append(parts, encRows(rowsOf(sm)))
				}
				if sm, err := al.RandSubAlign(half(L), false); err == nil {
					parts = append(parts, encRows(rowsOf(sm)))
				}
				parts = append(parts, encRows(rowsOf(al.BuildBootstrap(1.0))))
				return strings.Join(parts, "|")
			}
			x := run()
			rand.Seed(seed + 12345)
			al.RandSubAlign(half(half(L)), false)
			al.RandSubAlign(half(L), false)
			al.Sample(1)
			al.BuildBootstrap(0.5)
			if y := run(); x != y {
				return "different"
			}
			return "same"
		}
		return "bad-op"
	})
}

func strJoin(v []string) string {
	if len(v) == 0 {
		return "_"
	}
	return strings.Join(v, ",")
}

func parseFracSigned(s string) float64 {
	if strings.HasPrefix(s, "-") {
		return -parseFrac(s[1:])
	}
	return parseFrac(s)
}
