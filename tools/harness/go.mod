module gvharness

go 1.21.6

require (
	github.com/evolbioinfo/goalign v0.0.0
	gonum.org/v1/gonum v0.9.3
)

require (
	github.com/armon/go-radix v1.0.0 // indirect
	github.com/ulikunitz/xz v0.5.10 // indirect
	golang.org/x/exp v0.0.0-20200224162631-6cc2880d07d6 // indirect
)

replace github.com/evolbioinfo/goalign => /repo
