module gvharness

go 1.21.6

require github.com/evolbioinfo/goalign v0.0.0

require github.com/armon/go-radix v1.0.0 // indirect

replace github.com/evolbioinfo/goalign => /repo
