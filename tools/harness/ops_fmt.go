package main

// C02 / C03: writers and parsers of every alignment format, auto-detection, multi-Phylip streams,
// compressed temp-file round trips through io/utils, and the partition parser.
//
// Wire formats (all byte strings hex encoded, `-` stands for the empty byte string so that a field
// is never empty):
//   xrows          hexname:hexseq,hexname:hexseq   (`_` = no row)
//   writer opts    phylip: three 0/1 digits strict,oneline,noblock (e.g. `100`); other formats `_`
//   parser opts    `<strict>,<ignore>,<alphabet>`  strict 0/1 (phylip only), ignore 0/1/2
//                  (IGNORE_NONE/NAME/SEQUENCE), alphabet 0/1/2 (AMINOACIDS/NUCLEOTIDS/BOTH=auto)
//   alignment      `<alphabet> <length> <xrows>`
//   parse outcome  `ok <alignment>` | `err` | `eos` (Phylip end-of-stream marker `(nil, nil)`)
//   multi outcome  `multi <k> <alignment>;<alignment>;… end=ok|err`
//   partition      `ok <length> <hexname>|<hexmodel>,… <p0,p1,…>`  | `err`
// Panics are reported by the framework as `panic:…`, hangs and os.Exit by the python parent.

import (
	"bufio"
	"bytes"
	"fmt"
	"io"
	"os"
	"path/filepath"
	"strings"

	"github.com/evolbioinfo/goalign/align"
	"github.com/evolbioinfo/goalign/io/clustal"
	"github.com/evolbioinfo/goalign/io/fasta"
	"github.com/evolbioinfo/goalign/io/nexus"
	"github.com/evolbioinfo/goalign/io/paml"
	"github.com/evolbioinfo/goalign/io/partition"
	"github.com/evolbioinfo/goalign/io/phylip"
	"github.com/evolbioinfo/goalign/io/stockholm"
	"github.com/evolbioinfo/goalign/io/utils"
)

type popts struct {
	strict bool
	ignore int
	alpha  int
}

func decPOpts(s string) popts {
	f := strings.Split(s, ",")
	if len(f) != 3 {
		panic("harness: bad parser opts " + s)
	}
	return popts{atob(f[0]), atoi(f[1]), atoi(f[2])}
}

type wopts struct{ strict, oneline, noblock bool }

func decWOpts(s string) wopts {
	if s == "_" {
		return wopts{}
	}
	if len(s) != 3 {
		panic("harness: bad writer opts " + s)
	}
	return wopts{s[0] == '1', s[1] == '1', s[2] == '1'}
}

// buildAlign makes the alignment object a writer is given.  `alpha` is 0/1/3 (forced container
// alphabet) or `auto` (AutoAlphabet, what every parser does before handing an alignment on).
func buildAlign(alpha string, rows []Row) (align.Alignment, error) {
	al := align.NewAlign(align.UNKNOWN)
	for _, r := range rows {
		if err := al.AddSequence(r.Name, r.Seq, ""); err != nil {
			return nil, err
		}
	}
	if alpha == "auto" {
		al.AutoAlphabet()
	} else {
		a2 := align.NewAlign(atoi(alpha))
		for _, r := range rows {
			if err := a2.AddSequence(r.Name, r.Seq, ""); err != nil {
				return nil, err
			}
		}
		return a2, nil
	}
	return al, nil
}

func writeFmt(format string, w wopts, al align.Alignment) string {
	switch format {
	case "fasta":
		return fasta.WriteAlignment(al)
	case "phylip":
		return phylip.WriteAlignment(al, w.strict, w.oneline, w.noblock)
	case "nexus":
		return nexus.WriteAlignment(al)
	case "clustal":
		return clustal.WriteAlignment(al)
	case "stockholm":
		return stockholm.WriteAlignment(al)
	case "paml":
		return paml.WriteAlignment(al)
	}
	panic("harness: unknown format " + format)
}

func encAlign(al align.Alignment) string {
	return fmt.Sprintf("%d %d %s", al.Alphabet(), al.Length(), encXRows(rowsOf(al)))
}

func outcome(al align.Alignment, err error) string {
	if err != nil {
		return "err"
	}
	if al == nil {
		return "eos"
	}
	return "ok " + encAlign(al)
}

func parseFmt(format string, o popts, r io.Reader) (align.Alignment, error) {
	switch format {
	case "fasta":
		return fasta.NewParser(r).IgnoreIdentical(o.ignore).Alphabet(o.alpha).Parse()
	case "phylip":
		return phylip.NewParser(r, o.strict).IgnoreIdentical(o.ignore).Alphabet(o.alpha).Parse()
	case "nexus":
		return nexus.NewParser(r).IgnoreIdentical(o.ignore).Alphabet(o.alpha).Parse()
	case "clustal":
		return clustal.NewParser(r).IgnoreIdentical(o.ignore).Alphabet(o.alpha).Parse()
	case "stockholm":
		return stockholm.NewParser(r).IgnoreIdentical(o.ignore).Alphabet(o.alpha).Parse()
	}
	panic("harness: unknown format " + format)
}

func parseMulti(o popts, r io.Reader) string {
	ch := &align.AlignChannel{Achan: make(chan align.Alignment, 15)}
	go phylip.NewParser(r, o.strict).IgnoreIdentical(o.ignore).Alphabet(o.alpha).ParseMultiple(ch)
	parts := []string{}
	for al := range ch.Achan {
		parts = append(parts, strings.ReplaceAll(encAlign(al), " ", "/"))
	}
	end := "ok"
	if ch.Err != nil {
		end = "err"
	}
	body := "_"
	if len(parts) > 0 {
		body = strings.Join(parts, ";")
	}
	return fmt.Sprintf("multi %d %s end=%s", len(parts), body, end)
}

func encPartition(ps *align.PartitionSet) string {
	n := ps.NPartitions()
	nm := make([]string, n)
	for i := 0; i < n; i++ {
		nm[i] = hexz([]byte(ps.PartitionName(i))) + "|" + hexz([]byte(ps.ModeleName(i)))
	}
	names := "_"
	if n > 0 {
		names = strings.Join(nm, ",")
	}
	L := ps.AliLength()
	v := make([]int, L)
	for i := 0; i < L; i++ {
		v[i] = ps.Partition(i)
	}
	return fmt.Sprintf("ok %d %s %s", L, names, encInts(v))
}

var formatNames = map[int]string{
	align.FORMAT_FASTA: "fasta", align.FORMAT_PHYLIP: "phylip", align.FORMAT_NEXUS: "nexus",
	align.FORMAT_CLUSTAL: "clustal", align.FORMAT_STOCKHOLM: "stockholm",
}
var formatCodes = map[string]int{
	"fasta": align.FORMAT_FASTA, "phylip": align.FORMAT_PHYLIP, "nexus": align.FORMAT_NEXUS,
	"clustal": align.FORMAT_CLUSTAL, "stockholm": align.FORMAT_STOCKHOLM,
}

// fileRoundTrip writes `content` through utils.OpenWriteFile to a fresh temp dir (plain / .gz / .xz
// by extension) and reads it back through utils.GetReader (+ ReadAlign where it knows the format).
func fileRoundTrip(format, ext string, o popts, content string) (res string) {
	dir, err := os.MkdirTemp("", "gvfmt")
	if err != nil {
		panic("harness: mkdirtemp")
	}
	defer os.RemoveAll(dir)
	name := filepath.Join(dir, "a."+format)
	if ext != "plain" {
		name += "." + ext
	}
	f, err := utils.OpenWriteFile(name)
	if err != nil {
		return "err-open-write"
	}
	if _, err = f.WriteString(content); err != nil {
		return "err-write"
	}
	utils.CloseWriteFile(f, name)
	if format == "stockholm" || o.strict || o.ignore != align.IGNORE_NONE {
		fi, r, err := utils.GetReader(name)
		if err != nil {
			return "err-open-read"
		}
		defer fi.Close()
		return outcome(parseFmt(format, o, r))
	}
	return outcome(utils.ReadAlign(name, formatCodes[format], o.alpha))
}

func init() {
	// write <fmt> <wopts> <alphabet|auto> <xrows>
	register("write", func(a []string) string {
		al, err := buildAlign(a[2], decXRows(a[3]))
		if err != nil {
			return "err-build"
		}
		return "ok " + hexz([]byte(writeFmt(a[0], decWOpts(a[1]), al)))
	})
	// parse <fmt> <popts> <hexbytes>   (fmt = partition: <popts> is the alignment length)
	register("parse", func(a []string) string {
		data := unhexz(a[2])
		if a[0] == "partition" {
			ps, err := partition.NewParser(bytes.NewReader(data)).Parse(atoi(a[1]))
			if err != nil {
				return "err"
			}
			return encPartition(ps)
		}
		return outcome(parseFmt(a[0], decPOpts(a[1]), bytes.NewReader(data)))
	})
	// parsemulti <popts> <hexbytes>
	register("parsemulti", func(a []string) string {
		return parseMulti(decPOpts(a[0]), bytes.NewReader(unhexz(a[1])))
	})
	// roundtripu: the same call; the oracle judges it for names holding well-formed multi-byte UTF-8 letters
	register("roundtripu", func(a []string) string {
		al, err := buildAlign(a[3], decXRows(a[4]))
		if err != nil {
			return "err-build"
		}
		out := writeFmt(a[0], decWOpts(a[1]), al)
		return outcome(parseFmt(a[0], decPOpts(a[2]), strings.NewReader(out)))
	})
	// roundtrip <fmt> <wopts> <popts> <alphabet|auto> <xrows>
	register("roundtrip", func(a []string) string {
		al, err := buildAlign(a[3], decXRows(a[4]))
		if err != nil {
			return "err-build"
		}
		out := writeFmt(a[0], decWOpts(a[1]), al)
		return outcome(parseFmt(a[0], decPOpts(a[2]), strings.NewReader(out)))
	})
	// multirt <wopts> <popts> <xrows;xrows;…> : several Phylip alignments written one after the
	// other, parsed back with ParseMultiple
	register("multirt", func(a []string) string {
		var buf bytes.Buffer
		w := decWOpts(a[0])
		for _, x := range strings.Split(a[2], ";") {
			al, err := buildAlign("auto", decXRows(x))
			if err != nil {
				return "err-build"
			}
			buf.WriteString(phylip.WriteAlignment(al, w.strict, w.oneline, w.noblock))
		}
		return parseMulti(decPOpts(a[1]), &buf)
	})
	// multirtf <plain|gz|xz> <wopts> <popts> <xrows;xrows;…> : the same through a file, one WriteString per alignment
	// (as cmd/root.go writeAlign does for every alignment of its input), read back with GetReader + ParseMultiple
	register("multirtf", func(a []string) string {
		dir, err := os.MkdirTemp("", "gvfmt")
		if err != nil {
			panic("harness: mkdirtemp")
		}
		defer os.RemoveAll(dir)
		name := filepath.Join(dir, "a.phy")
		if a[0] != "plain" {
			name += "." + a[0]
		}
		f, err := utils.OpenWriteFile(name)
		if err != nil {
			return "err-open-write"
		}
		w := decWOpts(a[1])
		for _, x := range strings.Split(a[3], ";") {
			al, err := buildAlign("auto", decXRows(x))
			if err != nil {
				return "err-build"
			}
			if _, err = f.WriteString(phylip.WriteAlignment(al, w.strict, w.oneline, w.noblock)); err != nil {
				return "err-write"
			}
		}
		utils.CloseWriteFile(f, name)
		fi, r, err := utils.GetReader(name)
		if err != nil {
			return "err-open-read"
		}
		defer fi.Close()
		return parseMulti(decPOpts(a[2]), r)
	})
	// filechunks <plain|gz|xz> <n1,n2,…> : strings of the given sizes written one WriteString each; what GetReader
	// returns must be their concatenation
	register("filechunks", func(a []string) string {
		dir, err := os.MkdirTemp("", "gvfmt")
		if err != nil {
			panic("harness: mkdirtemp")
		}
		defer os.RemoveAll(dir)
		name := filepath.Join(dir, "chunks.txt")
		if a[0] != "plain" {
			name += "." + a[0]
		}
		f, err := utils.OpenWriteFile(name)
		if err != nil {
			return "err-open-write"
		}
		var want bytes.Buffer
		x := uint32(2463534242)
		for k, ns := range strings.Split(a[1], ",") {
			n := atoi(ns)
			b := make([]byte, n)
			for i := range b {
				x ^= x << 13
				x ^= x >> 17
				x ^= x << 5
				b[i] = "ACGT-acgtNRYK\n>*"[x%16]
			}
			if n > 0 {
				b[0] = byte('a' + k%26)
			}
			want.Write(b)
			if _, err = f.WriteString(string(b)); err != nil {
				return "err-write"
			}
		}
		utils.CloseWriteFile(f, name)
		fi, r, err := utils.GetReader(name)
		if err != nil {
			return "err-open-read"
		}
		defer fi.Close()
		got, err := io.ReadAll(r)
		if err != nil {
			return "err-read"
		}
		if bytes.Equal(got, want.Bytes()) {
			return "same"
		}
		d := 0
		for d < len(got) && d < want.Len() && got[d] == want.Bytes()[d] {
			d++
		}
		return fmt.Sprintf("differ at byte %d (read %d bytes, written %d)", d, len(got), want.Len())
	})
	// auto <strict> <hexbytes> : utils.ParseAlignmentAuto
	register("auto", func(a []string) string {
		al, f, err := utils.ParseAlignmentAuto(bufio.NewReader(bytes.NewReader(unhexz(a[1]))), atob(a[0]))
		if err != nil {
			return "err"
		}
		if al == nil {
			return "eos"
		}
		return "fmt=" + formatNames[f] + " ok " + encAlign(al)
	})
	// autort <fmt> <wopts> <alphabet|auto> <xrows> : write, then ParseAlignmentAuto and
	// ParseMultiAlignmentsAuto (first alignment); reports the detected format of both
	register("autort", func(a []string) string {
		al, err := buildAlign(a[2], decXRows(a[3]))
		if err != nil {
			return "err-build"
		}
		w := decWOpts(a[1])
		out := writeFmt(a[0], w, al)
		al2, f, err := utils.ParseAlignmentAuto(bufio.NewReader(strings.NewReader(out)), w.strict)
		if err != nil || al2 == nil {
			return "err"
		}
		ch, f2, err := utils.ParseMultiAlignmentsAuto(nil, bufio.NewReader(strings.NewReader(out)), w.strict, align.BOTH)
		if err != nil {
			return "err-multi"
		}
		var first align.Alignment
		n := 0
		for x := range ch.Achan {
			if n == 0 {
				first = x
			}
			n++
		}
		if ch.Err != nil || n != 1 {
			return fmt.Sprintf("err-multi-count %d", n)
		}
		if encAlign(first) != encAlign(al2) || f2 != f {
			return "err-multi-differs"
		}
		return "fmt=" + formatNames[f] + " ok " + encAlign(al2)
	})
	// filert <fmt> <plain|gz|xz> <wopts> <popts> <alphabet|auto> <xrows>
	register("filert", func(a []string) string {
		al, err := buildAlign(a[4], decXRows(a[5]))
		if err != nil {
			return "err-build"
		}
		out := writeFmt(a[0], decWOpts(a[2]), al)
		return fileRoundTrip(a[0], a[1], decPOpts(a[3]), out)
	})
	// chain <fmt:wopts,fmt:wopts,…> <alphabet|auto> <xrows> : convert through the formats in turn
	// (each step: write, parse with default options; phylip parsed strict iff written strict)
	register("chain", func(a []string) string {
		al, err := buildAlign(a[1], decXRows(a[2]))
		if err != nil {
			return "err-build"
		}
		for k, step := range strings.Split(a[0], ",") {
			fw := strings.SplitN(step, ":", 2)
			w := decWOpts(fw[1])
			out := writeFmt(fw[0], w, al)
			al, err = parseFmt(fw[0], popts{w.strict, align.IGNORE_NONE, align.BOTH}, strings.NewReader(out))
			if err != nil || al == nil {
				return fmt.Sprintf("err-step %d", k)
			}
		}
		return "ok " + encAlign(al)
	})
}
