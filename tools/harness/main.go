// harness: runs operations on the real goalign code (package import via `replace => /repo`).
//
// Protocol (DESIGN §4.5, Appendix B): one operation per input line, tab separated:
//     <id> \t <op> \t <arg>...
// one result per output line:
//     <id> \t <result>
// Results are canonical single-field strings.  A Go panic inside an operation is caught and
// reported as `panic:<first line of message>`; os.Exit and hangs are detected by the parent
// (python driver), which restarts the worker.
package main

import (
	"bufio"
	"fmt"
	"io"
	"log"
	"os"
	"strings"
)

type opFunc func(args []string) string

var ops = map[string]opFunc{}

func register(name string, f opFunc) {
	if _, dup := ops[name]; dup {
		panic("duplicate op " + name)
	}
	ops[name] = f
}

func runOp(f opFunc, args []string) (res string) {
	defer func() {
		if r := recover(); r != nil {
			msg := fmt.Sprint(r)
			if i := strings.IndexByte(msg, '\n'); i >= 0 {
				msg = msg[:i]
			}
			res = "panic:" + strings.ReplaceAll(msg, "\t", " ")
		}
	}()
	return f(args)
}

func main() {
	log.SetOutput(io.Discard)
	in := bufio.NewReaderSize(os.Stdin, 1<<20)
	out := bufio.NewWriterSize(os.Stdout, 1<<16)
	defer out.Flush()
	for {
		line, err := in.ReadString('\n')
		if len(line) > 0 {
			line = strings.TrimRight(line, "\n")
			f := strings.Split(line, "\t")
			if len(f) >= 2 {
				var res string
				if op, ok := ops[f[1]]; ok {
					res = runOp(op, f[2:])
				} else {
					res = "bad-op"
				}
				fmt.Fprintf(out, "%s\t%s\n", f[0], res)
				out.Flush()
			}
		}
		if err != nil {
			return
		}
	}
}
