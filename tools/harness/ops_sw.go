package main

import (
	"fmt"
	"math"
	"strconv"
	"sync"

	"github.com/evolbioinfo/goalign/align"
)

// C09 -----------------------------------------------------------------------------------
//
// sw <mode> <den> <match> <mismatch> <gapopen> <gapext> <seq1> <seq2>
//
//	mode     mat : scores from the built-in matrix chosen by NewPwAligner (match/mismatch ignored)
//	         mm  : SetScore(match/den, mismatch/den)
//	den      power of two; every score argument is an integer numerator over den (so that the
//	         float64 values are exact); `d` = do not call the setter (constructor default)
//	seq      residues, `_` for the empty sequence
//
// result  ok v=<variant> sc=<score*den> st=<s1>,<s2> en=<e1>,<e2> len= nm= mis= gap= r1= r2= al=<0|1> unmod=<0|1>
//
//	err v=<variant>            Alignment() returned an error
//	panic v=<variant>          the library panicked
//
// variant = border + 2*alphabet, decided once by probing the linked library:
//   border   1 = aligner with the border repair ("A" vs "A" scores > 0; the shipped code reports 0)
//   alphabet 1 = matrix chosen by membership in the index maps ("A*" vs "A*" is aligned with
//                BLOSUM62; the shipped code sends it to DNAfull and returns an error)
// The oracle runs the model of that variant.
var (
	swVariantOnce sync.Once
	swVariant     int
)

func swProbeOne(s string) (score float64, ok bool) {
	defer func() {
		if r := recover(); r != nil {
			ok = false
		}
	}()
	a := align.NewPwAligner(align.NewSequence("s1", []uint8(s), ""), align.NewSequence("s2", []uint8(s), ""), align.ALIGN_ALGO_SW)
	if _, err := a.Alignment(); err != nil {
		return 0, false
	}
	return a.MaxScore(), true
}

func swProbe() int {
	swVariantOnce.Do(func() {
		if sc, ok := swProbeOne("A"); ok && sc > 0 {
			swVariant |= 1
		}
		if _, ok := swProbeOne("A*"); ok {
			swVariant |= 2
		}
	})
	return swVariant
}

func swSeq(s string) string {
	if s == "_" {
		return ""
	}
	return s
}

func swEnc(b []uint8) string {
	if len(b) == 0 {
		return "_"
	}
	return string(b)
}

// exact integer rendering of x (a multiple of 1/den times den); anything else is flagged
func swScore(x float64) string {
	if x == math.Trunc(x) && math.Abs(x) < 9007199254740992 {
		return strconv.FormatInt(int64(x), 10)
	}
	return "f" + strconv.FormatFloat(x, 'g', 17, 64)
}

func opSW(a []string) string {
	v := swProbe()
	// argument decoding happens outside the recover below: a malformed line is a harness error
	// (`panic:harness: ...` from the framework), never a library panic
	mode := a[0]
	den := float64(atoi(a[1]))
	var match, mismatch, gopen, gext float64
	if mode == "mm" {
		match, mismatch = float64(atoi(a[2]))/den, float64(atoi(a[3]))/den
	}
	if a[4] != "d" {
		gopen = float64(atoi(a[4])) / den
	}
	if a[5] != "d" {
		gext = float64(atoi(a[5])) / den
	}
	in1, in2 := swSeq(a[6]), swSeq(a[7])
	return swRun(v, mode, den, match, mismatch, a[4] != "d", gopen, a[5] != "d", gext, in1, in2)
}

func swRun(v int, mode string, den, match, mismatch float64, setOpen bool, gopen float64, setExt bool, gext float64, in1, in2 string) (res string) {
	defer func() {
		if r := recover(); r != nil {
			res = fmt.Sprintf("panic v=%d", v)
		}
	}()
	seq1 := align.NewSequence("s1", []uint8(in1), "c1")
	seq2 := align.NewSequence("s2", []uint8(in2), "c2")
	al := align.NewPwAligner(seq1, seq2, align.ALIGN_ALGO_SW)
	if setOpen {
		al.SetGapOpenScore(gopen)
	}
	if setExt {
		al.SetGapExtendScore(gext)
	}
	if mode == "mm" {
		al.SetScore(match, mismatch)
	}
	res0, err := al.Alignment()
	if err != nil {
		return fmt.Sprintf("err v=%d", v)
	}
	s1, s2 := al.AlignStarts()
	e1, e2 := al.AlignEnds()
	r1, r2 := al.Seq1Ali(), al.Seq2Ali()
	// the returned Alignment object must carry exactly these two rows
	alok := false
	if res0 != nil {
		rows := rowsOf(res0)
		alok = len(rows) == 2 && rows[0].Name == "s1" && rows[1].Name == "s2" &&
			rows[0].Seq == string(r1) && rows[1].Seq == string(r2)
	}
	unmod := seq1.Sequence() == in1 && seq2.Sequence() == in2 && seq1.Name() == "s1" && seq2.Name() == "s2" &&
		seq1.Comment() == "c1" && seq2.Comment() == "c2"
	return fmt.Sprintf("ok v=%d sc=%s st=%d,%d en=%d,%d len=%d nm=%d mis=%d gap=%d r1=%s r2=%s al=%s unmod=%s",
		v, swScore(al.MaxScore()*den), s1, s2, e1, e2, al.Length(), al.NbMatches(), al.NbMisMatches(), al.NbGaps(),
		swEnc(r1), swEnc(r2), btoa(alok), btoa(unmod))
}

func init() {
	register("sw", opSW)
}
