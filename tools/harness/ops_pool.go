package main

// Operations for the concurrency part of C08 (dna.DistMatrix) and for C16 (phaser.Phase):
//
//	distcpus  : the same alignment with several worker counts, matrices compared bit for bit
//	distfail  : a caller-supplied DistModel whose evaluation fails at the k-th pair / k-th call
//	distpair  : two DistMatrix runs (metamorphic pairs of the first half of C08)
//	phase     : Phase with several worker counts; canonical result sets, closed?, inputs unmodified?
//	longestorf / baglongestorf : the reference search
//
// Floats are printed as the 16 hex digits of math.Float64bits (never as decimal text).

import (
	"fmt"
	"math"
	"sort"
	"strconv"
	"strings"
	"sync"
	"sync/atomic"
	"time"

	"github.com/evolbioinfo/goalign/align"
	"github.com/evolbioinfo/goalign/distance/dna"
)

func mkDistModel(name string, rmgaps bool, gapmut int) (dna.DistModel, error) {
	// "pdistamb" = pdist with SetRemoveAmbiguous(true) (command line --rm-ambiguous)
	rmamb := name == "pdistamb"
	if rmamb {
		name = "pdist"
	}
	m, err := dna.Model(name, rmgaps)
	if err != nil {
		return nil, err
	}
	if pm, ok := m.(*dna.PDistModel); ok && rmamb {
		pm.SetRemoveAmbiguous(true)
	}
	switch x := m.(type) {
	case *dna.RawDistModel:
		if err = x.SetCountGapMutations(gapmut); err != nil {
			return nil, err
		}
	case *dna.PDistModel:
		if err = x.SetCountGapMutations(gapmut); err != nil {
			return nil, err
		}
	default:
		if gapmut != 0 {
			return nil, fmt.Errorf("gap counting mode only for rawdist/pdist")
		}
	}
	return m, nil
}

// "0" = no gamma, otherwise the alpha value in decimal
func gammaArg(s string) (bool, float64) {
	if s == "0" || s == "_" {
		return false, 0
	}
	a, err := strconv.ParseFloat(s, 64)
	if err != nil {
		panic("harness: bad alpha " + s)
	}
	return true, a
}

func floatsArg(s string) []float64 {
	if s == "_" {
		return nil
	}
	parts := strings.Split(s, ",")
	out := make([]float64, len(parts))
	for i, p := range parts {
		v, err := strconv.ParseFloat(p, 64)
		if err != nil {
			panic("harness: bad float " + p)
		}
		out[i] = v
	}
	return out
}

func matrixStr(m [][]float64) string {
	var sb strings.Builder
	sb.WriteString(strconv.Itoa(len(m)))
	sb.WriteByte(':')
	first := true
	for _, r := range m {
		for _, v := range r {
			if !first {
				sb.WriteByte(',')
			}
			first = false
			fmt.Fprintf(&sb, "%016x", math.Float64bits(v))
		}
	}
	return sb.String()
}

// runDist: one DistMatrix call on a fresh model
func runDist(model string, rmgaps bool, gapmut int, gamma bool, alpha float64, rows []Row, weights []float64,
	ranges []int, cpus int) (string, bool) {
	al, err := mkAlign(align.NUCLEOTIDS, rows)
	if err != nil {
		return "err-build", false
	}
	m, err := mkDistModel(model, rmgaps, gapmut)
	if err != nil {
		return "err-model", false
	}
	r := []int{-1, -1, -1, -1}
	if len(ranges) == 4 {
		r = ranges
	}
	d, err := dna.DistMatrix(al, weights, m, r[0], r[1], r[2], r[3], gamma, alpha, cpus)
	if err != nil {
		return "err", false
	}
	return matrixStr(d), true
}

// failModel wraps a real model; Distance fails for one pair (mode "pair": the k-th pair in the producer's
// order, identified by the identity of the code slices) or at the k-th call (mode "call").
type failModel struct {
	inner    dna.DistModel
	mode     string
	k        int64
	calls    int64
	n        int
	ptr      map[*uint8]int
	fi, fj   int
	pairSeen int64
}

func (f *failModel) InitModel(al align.Alignment, weights []float64, gamma bool, alpha float64) error {
	if err := f.inner.InitModel(al, weights, gamma, alpha); err != nil {
		return err
	}
	f.n = al.NbSequences()
	f.ptr = map[*uint8]int{}
	for i := 0; i < f.n; i++ {
		s, err := f.inner.Sequence(i)
		if err != nil {
			return err
		}
		if len(s) > 0 {
			f.ptr[&s[0]] = i
		}
	}
	// k-th pair of the half matrix in the producer's order
	f.fi, f.fj = -1, -1
	c := int64(0)
	for i := 0; i < f.n && f.fi < 0; i++ {
		for j := i + 1; j < f.n; j++ {
			if c == f.k {
				f.fi, f.fj = i, j
				break
			}
			c++
		}
	}
	return nil
}

func (f *failModel) Sequence(i int) ([]uint8, error) { return f.inner.Sequence(i) }

func (f *failModel) Distance(s1, s2 []uint8, w []float64) (float64, error) {
	switch f.mode {
	case "call":
		if atomic.AddInt64(&f.calls, 1)-1 == f.k {
			return 0, fmt.Errorf("injected failure at call %d", f.k)
		}
	case "pairfrom":
		// every pair from the k-th on (producer's order of the half matrix) fails: several evaluations fail,
		// possibly in several workers at once
		if len(s1) > 0 && len(s2) > 0 {
			i, ok1 := f.ptr[&s1[0]]
			j, ok2 := f.ptr[&s2[0]]
			if ok1 && ok2 && i < j && int64(i*f.n-i*(i+1)/2+(j-i-1)) >= f.k {
				atomic.AddInt64(&f.pairSeen, 1)
				return 0, fmt.Errorf("injected failure from pair %d on (%d,%d)", f.k, i, j)
			}
		}
	default:
		if len(s1) > 0 && len(s2) > 0 {
			i, ok1 := f.ptr[&s1[0]]
			j, ok2 := f.ptr[&s2[0]]
			if ok1 && ok2 && i == f.fi && j == f.fj {
				atomic.AddInt64(&f.pairSeen, 1)
				return 0, fmt.Errorf("injected failure at pair %d (%d,%d)", f.k, i, j)
			}
		}
	}
	return f.inner.Distance(s1, s2, w)
}

// recordModel wraps a real model and records which pairs DistMatrix asks for
type recordModel struct {
	inner dna.DistModel
	ptr   map[*uint8]int
	mu    sync.Mutex
	pairs []string
}

func (f *recordModel) InitModel(al align.Alignment, weights []float64, gamma bool, alpha float64) error {
	if err := f.inner.InitModel(al, weights, gamma, alpha); err != nil {
		return err
	}
	f.ptr = map[*uint8]int{}
	for i := 0; i < al.NbSequences(); i++ {
		s, err := f.inner.Sequence(i)
		if err != nil {
			return err
		}
		if len(s) > 0 {
			f.ptr[&s[0]] = i
		}
	}
	return nil
}

func (f *recordModel) Sequence(i int) ([]uint8, error) { return f.inner.Sequence(i) }

func (f *recordModel) Distance(s1, s2 []uint8, w []float64) (float64, error) {
	if len(s1) > 0 && len(s2) > 0 {
		f.mu.Lock()
		f.pairs = append(f.pairs, fmt.Sprintf("%d-%d", f.ptr[&s1[0]], f.ptr[&s2[0]]))
		f.mu.Unlock()
	}
	return f.inner.Distance(s1, s2, w)
}

type phaseRes struct {
	name                 string
	pos                  int
	removed              bool
	nt, codon, aa, errk string
}

func seqStr(s align.Sequence) string {
	if s == nil {
		return "<nil>"
	}
	return s.Sequence()
}

func bagOrNil(arg string) align.SeqBag {
	if arg == "_" {
		return nil
	}
	return mkBag(align.UNKNOWN, decRows(arg))
}

// one Phase run; returns the canonical result set, whether the channel was closed within the watchdog
func runPhase(cpus int, translate, reverse, cutend bool, code int, orfs, seqs align.SeqBag, watch time.Duration) (set string, closed bool, perr bool) {
	ph := align.NewPhaser()
	ph.SetCpus(cpus)
	ph.SetLenCutoff(-1.0)
	ph.SetMatchCutoff(.5)
	ph.SetReverse(reverse)
	ph.SetCutEnd(cutend)
	if err := ph.SetTranslate(translate, code); err != nil {
		return "err-code", true, true
	}
	ch, err := ph.Phase(orfs, seqs)
	if err != nil {
		return "err", true, true
	}
	var res []string
	deadline := time.After(watch)
	for {
		select {
		case p, ok := <-ch:
			if !ok {
				sort.Strings(res)
				if len(res) == 0 {
					return "_", true, false
				}
				return strings.Join(res, ","), true, false
			}
			if p.Err != nil {
				res = append(res, "ERR")
				continue
			}
			name := "<nil>"
			if p.NtSeq != nil {
				name = p.NtSeq.Name()
			}
			res = append(res, fmt.Sprintf("%s|%d|%s|%s|%s|%s", name, p.Position, btoa(p.Removed), seqStr(p.NtSeq),
				seqStr(p.CodonSeq), seqStr(p.AaSeq)))
		case <-deadline:
			sort.Strings(res)
			return strings.Join(res, ","), false, false
		}
	}
}

func init() {
	// distcpus <model> <rmgaps> <gapmut> <alpha|0> <rows> <weights|_> <ranges|_> <cpus,cpus,...>
	//   -> "<matrix of cpus[0]>;<= or matrix or err>;..."
	register("distcpus", func(a []string) string {
		gamma, alpha := gammaArg(a[3])
		rows := decRows(a[4])
		w := floatsArg(a[5])
		ranges := ints(a[6])
		cpus := ints(a[7])
		out := make([]string, len(cpus))
		first := ""
		for i, c := range cpus {
			m, _ := runDist(a[0], atob(a[1]), atoi(a[2]), gamma, alpha, rows, w, ranges, c)
			if i == 0 {
				first = m
				out[i] = m
			} else if m == first {
				out[i] = "="
			} else {
				out[i] = m
			}
		}
		return strings.Join(out, ";")
	})

	// distfail <rows> <cpus> <k> <mode pair|call|pairfrom> <watch_ms>  -> returned-error | returned-nil | hang
	register("distfail", func(a []string) string {
		rows := decRows(a[0])
		cpus := atoi(a[1])
		k := int64(atoi(a[2]))
		watch := time.Duration(atoi(a[4])) * time.Millisecond
		al, err := mkAlign(align.NUCLEOTIDS, rows)
		if err != nil {
			return "err-build"
		}
		fm := &failModel{inner: dna.NewPDistModel(false), mode: a[3], k: k}
		done := make(chan string, 1)
		go func() {
			_, err := dna.DistMatrix(al, nil, fm, -1, -1, -1, -1, false, 0, cpus)
			if err != nil {
				done <- "returned-error"
			} else {
				done <- "returned-nil"
			}
		}()
		select {
		case r := <-done:
			return r
		case <-time.After(watch):
			return "hang"
		}
	})

	// distjobs <nrows> <ranges|_> <cpus> -> the pairs handed to the workers, in the order of evaluation for
	// cpus = 1 (= the producer's order), "i-j,i-j,..." ; "err" when DistMatrix returns an error
	register("distjobs", func(a []string) string {
		n := atoi(a[0])
		rows := make([]Row, n)
		for i := range rows {
			// distinct, non-empty rows
			rows[i] = Row{fmt.Sprintf("s%d", i), "ACGT" + strings.Repeat("A", i%3) + strings.Repeat("C", 2-i%3)}
		}
		al, err := mkAlign(align.NUCLEOTIDS, rows)
		if err != nil {
			return "err-build"
		}
		r := []int{-1, -1, -1, -1}
		if rr := ints(a[1]); len(rr) == 4 {
			r = rr
		}
		rm := &recordModel{inner: dna.NewPDistModel(false)}
		if _, err := dna.DistMatrix(al, nil, rm, r[0], r[1], r[2], r[3], false, 0, atoi(a[2])); err != nil {
			return "err"
		}
		if len(rm.pairs) == 0 {
			return "_"
		}
		if atoi(a[2]) != 1 {
			// the order of evaluation depends on the schedule: report the multiset
			sort.Slice(rm.pairs, func(x, y int) bool {
				var i1, j1, i2, j2 int
				fmt.Sscanf(rm.pairs[x], "%d-%d", &i1, &j1)
				fmt.Sscanf(rm.pairs[y], "%d-%d", &i2, &j2)
				return i1 < i2 || (i1 == i2 && j1 < j2)
			})
		}
		return strings.Join(rm.pairs, ",")
	})

	// distpair <kind> <param> <model> <rmgaps> <gapmut> <alpha|0> <rows1> <w1|_> <rows2> <w2|_> <cpus>
	//   -> "<matrix1>|<matrix2>"   (kind / param are for the oracle's predicate)
	register("distpair", func(a []string) string {
		gamma, alpha := gammaArg(a[5])
		c := atoi(a[10])
		m1, _ := runDist(a[2], atob(a[3]), atoi(a[4]), gamma, alpha, decRows(a[6]), floatsArg(a[7]), nil, c)
		m2, _ := runDist(a[2], atob(a[3]), atoi(a[4]), gamma, alpha, decRows(a[8]), floatsArg(a[9]), nil, c)
		return m1 + "|" + m2
	})

	// phase <cpus,...> <translate> <reverse> <cutend> <code> <orfs|_> <seqs> <watch_ms>
	//   -> "closed=<0/1> unmod=<0/1> noref=<same|diff|na> <set of cpus[0]>;<=|set>;..."  |  err
	register("phase", func(a []string) string {
		cpus := ints(a[0])
		translate, reverse, cutend, code := atob(a[1]), atob(a[2]), atob(a[3]), atoi(a[4])
		watch := time.Duration(atoi(a[7])) * time.Millisecond
		seqs := mkBag(align.NUCLEOTIDS, decRows(a[6]))
		orfs := bagOrNil(a[5])
		if orfs != nil {
			orfs.AutoAlphabet()
		}
		before := encRows(rowsOf(seqs))
		beforeOrf := ""
		if orfs != nil {
			beforeOrf = encRows(rowsOf(orfs))
		}
		out := make([]string, len(cpus))
		closedAll := true
		first := ""
		for i, c := range cpus {
			set, closed, perr := runPhase(c, translate, reverse, cutend, code, orfs, seqs, watch)
			if perr {
				if i == 0 {
					return set
				}
				out[i] = set
				continue
			}
			closedAll = closedAll && closed
			if i == 0 {
				first = set
				out[i] = set
			} else if set == first {
				out[i] = "="
			} else {
				out[i] = set
			}
		}
		unmod := encRows(rowsOf(seqs)) == before && (orfs == nil || encRows(rowsOf(orfs)) == beforeOrf)
		noref := "na"
		if orfs == nil {
			// the reference used must be SeqBag.LongestORF: phasing against it explicitly gives the same set
			if orf, err := seqs.LongestORF(reverse); err == nil {
				ref := align.NewSeqBag(align.UNKNOWN)
				ref.AddSequenceChar(orf.Name(), orf.SequenceChar(), orf.Comment())
				ref.AutoAlphabet()
				set, _, perr := runPhase(cpus[0], translate, reverse, cutend, code, ref, seqs, watch)
				if !perr && set == first {
					noref = "same"
				} else {
					noref = "diff"
				}
			}
		}
		return "closed=" + btoa(closedAll) + " unmod=" + btoa(unmod) + " noref=" + noref + " " + strings.Join(out, ";")
	})

	// longestorf <seq> -> "start,end"
	register("longestorf", func(a []string) string {
		s := align.NewSequence("s", []uint8(a[0]), "")
		st, en := s.LongestORF()
		return itoa(st) + "," + itoa(en)
	})

	// baglongestorf <reverse> <rows> -> "ok name:seq" | "err"
	register("baglongestorf", func(a []string) string {
		sb := mkBag(align.NUCLEOTIDS, decRows(a[1]))
		before := encRows(rowsOf(sb))
		orf, err := sb.LongestORF(atob(a[0]))
		unmod := btoa(encRows(rowsOf(sb)) == before)
		if err != nil {
			return "err unmod=" + unmod
		}
		return "ok " + orf.Name() + ":" + orf.Sequence() + " unmod=" + unmod
	})
}
