package main

// C04: site extraction and coordinates.

import (
	"fmt"
	"strings"

	"github.com/evolbioinfo/goalign/align"
)

func alFrom(a string, alpha int) align.Alignment {
	al, err := mkAlign(alpha, decRows(a))
	if err != nil {
		panic("harness: bad alignment")
	}
	return al
}

func init() {
	register("subalign", func(a []string) string {
		al := alFrom(a[0], align.NUCLEOTIDS)
		s, err := al.SubAlign(atoi(a[1]), atoi(a[2]))
		if err != nil {
			return "err"
		}
		return "ok " + itoa(s.Length()) + " " + encRows(rowsOf(s))
	})
	register("selectsites", func(a []string) string {
		al := alFrom(a[0], align.NUCLEOTIDS)
		s, err := al.SelectSites(ints(a[1]))
		if err != nil {
			return "err"
		}
		return "ok " + itoa(s.Length()) + " " + encRows(rowsOf(s))
	})
	register("invcoord", func(a []string) string {
		al := alFrom(a[0], align.NUCLEOTIDS)
		st, ln, err := al.InverseCoordinates(atoi(a[1]), atoi(a[2]))
		if err != nil {
			return "err"
		}
		return "ok " + encInts(st) + " " + encInts(ln)
	})
	register("invpos", func(a []string) string {
		al := alFrom(a[0], align.NUCLEOTIDS)
		p, err := al.InversePositions(ints(a[1]))
		if err != nil {
			return "err"
		}
		return "ok " + encInts(p)
	})
	register("refcoord", func(a []string) string {
		al := alFrom(a[0], align.NUCLEOTIDS)
		s, l, err := al.RefCoordinates(a[1], atoi(a[2]), atoi(a[3]))
		if err != nil {
			// the values computed so far are returned with the error; callers must not use them
			return "err"
		}
		return fmt.Sprintf("ok %d %d", s, l)
	})
	register("refsites", func(a []string) string {
		al := alFrom(a[0], align.NUCLEOTIDS)
		p, err := al.RefSites(a[1], ints(a[2]))
		if err != nil {
			return "err"
		}
		return "ok " + encInts(p)
	})
	register("transpose", func(a []string) string {
		al := alFrom(a[0], align.NUCLEOTIDS)
		t, err := al.Transpose()
		if err != nil {
			return "err"
		}
		return "ok " + itoa(t.Length()) + " " + encRows(rowsOf(t))
	})
	register("diff", func(a []string) string {
		al := alFrom(a[0], align.NUCLEOTIDS)
		al.DiffWithFirst()
		return encRows(rowsOf(al))
	})
	register("replacematch", func(a []string) string {
		al := alFrom(a[0], align.NUCLEOTIDS)
		al.ReplaceMatchChars()
		return encRows(rowsOf(al))
	})
	// split <rows> <ranges>  ranges: name:start:end:modulo;...  → AddRange calls on NewPartitionSet(L)
	register("split", func(a []string) string {
		al := alFrom(a[0], align.NUCLEOTIDS)
		ps := align.NewPartitionSet(al.Length())
		st := []string{}
		if a[1] != "_" {
			for _, r := range strings.Split(a[1], ";") {
				f := strings.Split(r, ":")
				err := ps.AddRange(f[0], "M", atoi(f[1]), atoi(f[2]), atoi(f[3]))
				if err != nil {
					st = append(st, "e")
				} else {
					st = append(st, "k")
				}
			}
		}
		parts := make([]string, al.Length())
		for i := 0; i < al.Length(); i++ {
			parts[i] = itoa(ps.Partition(i))
		}
		head := strings.Join(st, "") + " [" + strings.Join(parts, ",") + "] check=" + btoa(ps.CheckSites() == nil)
		als, err := al.Split(ps)
		if err != nil {
			return head + " err"
		}
		out := make([]string, len(als))
		for i, x := range als {
			out[i] = itoa(x.Length()) + ":" + strings.ReplaceAll(encRows(rowsOf(x)), ",", "+")
		}
		return head + " ok " + strings.Join(out, "|")
	})
}
