package main

// C20: random site weights (weighted bootstrap), Dirichlet / gamma samplers, incomplete gamma ratio,
// discrete-gamma rate categories.  Every sampler call is preceded by rand.Seed(seed) so that the oracle can
// replay it EXACTLY through its replica of math/rand.  Floats travel as IEEE bit patterns: arguments
// as 16 hex digits, results as `f:<bits>:<%.17g>` tokens (fstr, ops_stats.go) separated by spaces.
//
//   c20consts                                     the float constants of the modelled code
//   c20wgamma  <seed> <L>                         dna.BuildWeightsGamma on an alignment of length L
//   c20wdir    <seed> <L>                         dna.BuildWeightsDirichlet
//   c20dir     <seed> <factor> <alpha,alpha,...>  stats.Dirichlet
//   c20dir1    <seed> <factor> <n>                stats.Dirichlet1
//   c20gamma   <seed> <alpha> <beta> <n>          n successive stats.Gamma(alpha, beta)
//   c20incg    <alpha> <x,x,...>                  models.IncompleteGamma(x, alpha, Lgamma(alpha)) on a grid
//   c20dgamma  <alpha> <ncat>                     models.DiscreteGamma + the external quantiles it used

import (
	"fmt"
	"math"
	"math/rand"
	"strconv"
	"strings"

	"github.com/evolbioinfo/goalign/align"
	"github.com/evolbioinfo/goalign/distance/dna"
	"github.com/evolbioinfo/goalign/models"
	"github.com/evolbioinfo/goalign/stats"
	"gonum.org/v1/gonum/stat/distuv"
)

func fbits(s string) float64 {
	v, err := strconv.ParseUint(s, 16, 64)
	if err != nil {
		panic("harness: bad float bits " + s)
	}
	return math.Float64frombits(v)
}

func fbitsList(s string) []float64 {
	if s == "_" || s == "" {
		return nil
	}
	parts := strings.Split(s, ",")
	out := make([]float64, len(parts))
	for i, p := range parts {
		out[i] = fbits(p)
	}
	return out
}

func fstrs(v []float64) string {
	parts := make([]string, len(v))
	for i, x := range v {
		parts[i] = fstr(x)
	}
	return strings.Join(parts, " ")
}

func okFloats(v []float64) string {
	if len(v) == 0 {
		return "ok 0"
	}
	return "ok " + itoa(len(v)) + " " + fstrs(v)
}

func alignOfLength(l int) align.Alignment {
	al := align.NewAlign(align.NUCLEOTIDS)
	s := strings.Repeat("ACGT", l/4+1)[:l]
	if err := al.AddSequence("s0", s, ""); err != nil {
		panic(err)
	}
	al.AddSequence("s1", s, "")
	return al
}

func init() {
	register("c20consts", func(a []string) string {
		var magic float64 = 4 * math.Exp(-0.5) / math.Sqrt(2.0)
		return fstrs([]float64{math.E, magic, math.Log(4.0), 1e-7, .9999999, 1.0e-8, 1.0e30, models.DBL_MIN})
	})
	register("c20wgamma", func(a []string) string {
		al := alignOfLength(atoi(a[1]))
		rand.Seed(int64(atoi(a[0])))
		return okFloats(dna.BuildWeightsGamma(al))
	})
	register("c20wdir", func(a []string) string {
		al := alignOfLength(atoi(a[1]))
		rand.Seed(int64(atoi(a[0])))
		return okFloats(dna.BuildWeightsDirichlet(al))
	})
	// two alignments in the same process, one after the other: the second result must not remember the first
	register("c20wdir2", func(a []string) string {
		rand.Seed(int64(atoi(a[0])))
		dna.BuildWeightsDirichlet(alignOfLength(atoi(a[1])))
		return okFloats(dna.BuildWeightsDirichlet(alignOfLength(atoi(a[2]))))
	})
	register("c20wgamma2", func(a []string) string {
		rand.Seed(int64(atoi(a[0])))
		dna.BuildWeightsGamma(alignOfLength(atoi(a[1])))
		return okFloats(dna.BuildWeightsGamma(alignOfLength(atoi(a[2]))))
	})
	register("c20dir", func(a []string) string {
		rand.Seed(int64(atoi(a[0])))
		s, err := stats.Dirichlet(fbits(a[1]), fbitsList(a[2])...)
		if err != nil {
			return "err"
		}
		return okFloats(s)
	})
	register("c20dir1", func(a []string) string {
		rand.Seed(int64(atoi(a[0])))
		s, err := stats.Dirichlet1(fbits(a[1]), atoi(a[2]))
		if err != nil {
			return "err"
		}
		return okFloats(s)
	})
	register("c20gamma", func(a []string) string {
		rand.Seed(int64(atoi(a[0])))
		alpha, beta := fbits(a[1]), fbits(a[2])
		n := atoi(a[3])
		out := make([]float64, n)
		for i := range out {
			out[i] = stats.Gamma(alpha, beta)
		}
		return okFloats(out)
	})
	register("c20incg", func(a []string) string {
		alpha := fbits(a[0])
		lg, _ := math.Lgamma(alpha)
		xs := fbitsList(a[1])
		out := make([]float64, len(xs))
		for i, x := range xs {
			out[i] = models.IncompleteGamma(x, alpha, lg)
		}
		return "ok " + fstr(lg) + " " + itoa(len(out)) + " " + fstrs(out)
	})
	register("c20dgamma", func(a []string) string {
		alpha := fbits(a[0])
		ncat := atoi(a[1])
		r := append([]float64(nil), models.DiscreteGamma(alpha, ncat)...)
		// asked again with the same arguments (state kept between calls must not change the answer)
		for k := 2; k <= 3; k++ {
			again := models.DiscreteGamma(alpha, ncat)
			if okFloats(again) != okFloats(r) {
				return fmt.Sprintf("again-differs call%d ", k) + okFloats(again) + " first " + okFloats(r)
			}
		}
		// the externals exactly as DiscreteGamma computes them
		g := distuv.Gamma{Alpha: alpha, Beta: alpha}
		q := make([]float64, 0, ncat)
		for i := 0; i < ncat-1; i++ {
			q = append(q, g.Quantile(float64(i+1)/(float64(ncat))))
		}
		lng := math.Log(math.Gamma(alpha + 1))
		return okFloats(r) + " q " + fstrs(q) + " lg " + fstr(lng)
	})
}
