package main

import (
	"encoding/hex"
	"fmt"
	"sort"
	"strconv"
	"strings"

	"github.com/evolbioinfo/goalign/align"
)

// Rows is the plain, order-preserving view of a container used on the wire: `name:seq,name:seq`
// (`_` for no row).  Names and sequences in this encoding never contain `,` `:` or tab.
type Row struct {
	Name string
	Seq  string
}

func decRows(s string) []Row {
	if s == "_" {
		return nil
	}
	parts := strings.Split(s, ",")
	rows := make([]Row, len(parts))
	for i, p := range parts {
		k := strings.IndexByte(p, ':')
		if k < 0 {
			panic("harness: bad row " + p)
		}
		rows[i] = Row{p[:k], p[k+1:]}
	}
	return rows
}

func encRows(rows []Row) string {
	if len(rows) == 0 {
		return "_"
	}
	parts := make([]string, len(rows))
	for i, r := range rows {
		parts[i] = r.Name + ":" + r.Seq
	}
	return strings.Join(parts, ",")
}

func rowsOf(sb align.SeqBag) []Row {
	rows := []Row{}
	sb.IterateChar(func(name string, s []uint8) bool {
		rows = append(rows, Row{name, string(s)})
		return false
	})
	return rows
}

func atoi(s string) int {
	v, err := strconv.Atoi(s)
	if err != nil {
		panic("harness: bad int " + s)
	}
	return v
}

func atob(s string) bool { return s == "1" || s == "true" }

func btoa(b bool) string {
	if b {
		return "1"
	}
	return "0"
}

func unhex(s string) []byte {
	b, err := hex.DecodeString(s)
	if err != nil {
		panic("harness: bad hex")
	}
	return b
}

// mkAlign builds an alignment by AddSequence; returns error string of the first failing add.
func mkAlign(alphabet int, rows []Row) (align.Alignment, error) {
	a := align.NewAlign(alphabet)
	for _, r := range rows {
		if err := a.AddSequence(r.Name, r.Seq, ""); err != nil {
			return a, err
		}
	}
	return a, nil
}

func mkBag(alphabet int, rows []Row) align.SeqBag {
	a := align.NewSeqBag(alphabet)
	for _, r := range rows {
		a.AddSequence(r.Name, r.Seq, "")
	}
	return a
}

func ints(s string) []int {
	if s == "_" || s == "" {
		return []int{}
	}
	parts := strings.Split(s, ",")
	out := make([]int, len(parts))
	for i, p := range parts {
		out[i] = atoi(p)
	}
	return out
}

func encInts(v []int) string {
	if len(v) == 0 {
		return "_"
	}
	parts := make([]string, len(v))
	for i, x := range v {
		parts[i] = strconv.Itoa(x)
	}
	return strings.Join(parts, ",")
}

func strs(s string) []string {
	if s == "_" {
		return []string{}
	}
	return strings.Split(s, ",")
}

func encCharMap(m map[uint8]int) string {
	keys := make([]int, 0, len(m))
	for k := range m {
		keys = append(keys, int(k))
	}
	sort.Ints(keys)
	parts := make([]string, len(keys))
	for i, k := range keys {
		parts[i] = fmt.Sprintf("%d=%d", k, m[uint8(k)])
	}
	if len(parts) == 0 {
		return "_"
	}
	return strings.Join(parts, ",")
}

func itoa(i int) string { return strconv.Itoa(i) }
func hexs(b []byte) string { return hex.EncodeToString(b) }

// ---- hex variants (C02/C03: names and residues are arbitrary bytes) ------------------------------

// hexz / unhexz: a whole wire field holding a byte string; `-` is the empty string so that a
// field is never empty.
func hexz(b []byte) string {
	if len(b) == 0 {
		return "-"
	}
	return hex.EncodeToString(b)
}

func unhexz(s string) []byte {
	if s == "-" || s == "" {
		return []byte{}
	}
	return unhex(s)
}

// xrows: `hexname:hexseq,hexname:hexseq` (`_` = no row; an empty name or sequence is the empty string)
func decXRows(s string) []Row {
	if s == "_" {
		return nil
	}
	parts := strings.Split(s, ",")
	rows := make([]Row, len(parts))
	for i, p := range parts {
		k := strings.IndexByte(p, ':')
		if k < 0 {
			panic("harness: bad xrow " + p)
		}
		rows[i] = Row{string(unhex(p[:k])), string(unhex(p[k+1:]))}
	}
	return rows
}

func encXRows(rows []Row) string {
	if len(rows) == 0 {
		return "_"
	}
	parts := make([]string, len(rows))
	for i, r := range rows {
		parts[i] = hex.EncodeToString([]byte(r.Name)) + ":" + hex.EncodeToString([]byte(r.Seq))
	}
	return strings.Join(parts, ",")
}
