package main

// T3 determinism facts for property C11: every place in the non-test packages where run-to-run
// nondeterminism can enter — `range` over a map (Go randomises the order), time.Now, os.Getpid (and elapsed time, host / user / environment lookups, temporary names, a file's ModTime()),
// `go` statements, and uses of math/rand — with a syntactic classification of what a map-ordered
// loop does.  Output: lean/Gv/Gen/DetFacts.lean.
//
// The packages are loaded and TYPE-CHECKED with golang.org/x/tools/go/packages (offline, from the
// module cache the test suite already needs): a `range` statement is a map range exactly when the
// type of its operand has a map as underlying type.

import (
	"fmt"
	"go/ast"
	"go/token"
	"go/types"
	"os"
	"path/filepath"
	"sort"
	"strings"

	"golang.org/x/tools/go/packages"
)

var fset *token.FileSet

func writeIfChanged(path, content string) {
	if old, err := os.ReadFile(path); err == nil && string(old) == content {
		return
	}
	if err := os.WriteFile(path, []byte(content), 0o644); err != nil {
		fmt.Fprintln(os.Stderr, "detscan:", err)
		os.Exit(1)
	}
}

func main() {
	if len(os.Args) != 3 {
		fmt.Fprintln(os.Stderr, "usage: detscan <repo> <outdir>")
		os.Exit(2)
	}
	emitDetFacts(os.Args[1], os.Args[2])
}

type detSite struct {
	file, fn, kind, class, detail string
	line                          int
}

func isMapType(e ast.Expr) bool {
	_, ok := e.(*ast.MapType)
	return ok
}

func isMapExpr(e ast.Expr) bool {
	switch x := e.(type) {
	case *ast.CompositeLit:
		return isMapType(x.Type)
	case *ast.CallExpr:
		if id, ok := x.Fun.(*ast.Ident); ok && id.Name == "make" && len(x.Args) > 0 {
			return isMapType(x.Args[0])
		}
	}
	return false
}

// classifyBody gives a coarse description of what the body of a map-ordered loop does.
func classifyBody(body *ast.BlockStmt, key string, mapLocals map[string]bool, sortedLater func(name string) bool) (string, string) {
	appendsTo := map[string]bool{}
	// selection: a plain variable declared outside the loop is overwritten under a condition (arg-max
	// and the like).  It is order-insensitive only when ties are broken by the loop key.
	declared := map[string]bool{}
	selects := false
	keyCompared := false
	ast.Inspect(body, func(n ast.Node) bool {
		switch x := n.(type) {
		case *ast.AssignStmt:
			if x.Tok == token.DEFINE {
				for _, l := range x.Lhs {
					if id, ok := l.(*ast.Ident); ok {
						declared[id.Name] = true
					}
				}
			}
		case *ast.IfStmt:
			ast.Inspect(x.Cond, func(m ast.Node) bool {
				if b, ok := m.(*ast.BinaryExpr); ok && (b.Op == token.LSS || b.Op == token.GTR || b.Op == token.LEQ || b.Op == token.GEQ) {
					for _, side := range []ast.Expr{b.X, b.Y} {
						if id, ok := side.(*ast.Ident); ok && id.Name == key && key != "" && key != "_" {
							keyCompared = true
						}
					}
				}
				return true
			})
			ast.Inspect(x.Body, func(m ast.Node) bool {
				if a, ok := m.(*ast.AssignStmt); ok && a.Tok == token.ASSIGN {
					for i, l := range a.Lhs {
						if id, ok := l.(*ast.Ident); ok && !declared[id.Name] && id.Name != "_" && id.Name != "err" {
							if i < len(a.Rhs) {
								if c, ok := a.Rhs[i].(*ast.CallExpr); ok {
									if f, ok := c.Fun.(*ast.Ident); ok && f.Name == "append" {
										continue
									}
								}
							}
							selects = true
						}
					}
				}
				return true
			})
		}
		return true
	})
	floatAcc := false
	writesOut := false
	other := false
	otherWhat := ""
	ast.Inspect(body, func(n ast.Node) bool {
		switch x := n.(type) {
		case *ast.AssignStmt:
			for i, l := range x.Lhs {
				switch lt := l.(type) {
				case *ast.IndexExpr:
					// m2[k] = …  : writes keyed by something (order-insensitive when keyed by the loop key)
				case *ast.Ident:
					if i < len(x.Rhs) {
						if c, ok := x.Rhs[i].(*ast.CallExpr); ok {
							if f, ok := c.Fun.(*ast.Ident); ok && f.Name == "append" {
								appendsTo[lt.Name] = true
								continue
							}
						}
					}
					if x.Tok == token.ADD_ASSIGN || x.Tok == token.SUB_ASSIGN || x.Tok == token.MUL_ASSIGN {
						floatAcc = true // accumulation: order matters only for floating point rounding
					}
				default:
					_ = lt
				}
			}
		case *ast.CallExpr:
			if s, ok := x.Fun.(*ast.SelectorExpr); ok {
				n := s.Sel.Name
				if strings.HasPrefix(n, "Write") || strings.HasPrefix(n, "Print") || strings.HasPrefix(n, "Fprint") {
					writesOut = true
				}
			}
		case *ast.ReturnStmt, *ast.BranchStmt:
			// early exit / break: the first visited entry may decide
			if b, ok := x.(*ast.BranchStmt); ok && b.Tok != token.BREAK {
				return true
			}
			other = true
			otherWhat = "early-exit"
		}
		return true
	})
	switch {
	case writesOut:
		return "writes-output", ""
	case other:
		return "early-exit", otherWhat
	case selects && keyCompared:
		return "selects-ties-by-key", ""
	case selects:
		return "selects-first-wins", ""
	case len(appendsTo) > 0:
		names := []string{}
		unsorted := []string{}
		for n := range appendsTo {
			names = append(names, n)
			if !sortedLater(n) {
				unsorted = append(unsorted, n)
			}
		}
		sort.Strings(names)
		sort.Strings(unsorted)
		if len(unsorted) == 0 {
			return "appends-then-sorted", strings.Join(names, ",")
		}
		return "appends-unsorted", strings.Join(unsorted, ",")
	case floatAcc:
		return "accumulates", ""
	}
	return "keyed-writes-or-reads", ""
}

func emitDetFacts(repo, out string) {
	type pf struct {
		path string
		f    *ast.File
		info *types.Info
	}
	cfg := &packages.Config{Mode: packages.NeedName | packages.NeedFiles | packages.NeedSyntax | packages.NeedTypes | packages.NeedTypesInfo | packages.NeedImports | packages.NeedDeps,
		Dir: repo, Tests: false}
	pkgs, err := packages.Load(cfg, "./...")
	if err != nil {
		fmt.Fprintln(os.Stderr, "detscan: load:", err)
		os.Exit(1)
	}
	var files []pf
	for _, p := range pkgs {
		if len(p.Errors) > 0 {
			fmt.Fprintln(os.Stderr, "detscan: package", p.PkgPath, "has errors:", p.Errors[0])
			os.Exit(1)
		}
		fset = p.Fset
		for _, f := range p.Syntax {
			rel, _ := filepath.Rel(repo, p.Fset.Position(f.Pos()).Filename)
			if strings.HasSuffix(rel, "_test.go") || strings.HasPrefix(rel, "..") {
				continue
			}
			files = append(files, pf{filepath.ToSlash(rel), f, p.TypesInfo})
		}
	}
	sort.Slice(files, func(i, j int) bool { return files[i].path < files[j].path })
	var sites []detSite
	for _, x := range files {
		// package-level `var x = &cobra.Command{ Run: func(...) {...} }` holds most of cmd/: every function
		// literal in a variable initialiser is scanned as a pseudo function named after the variable
		var fdecls []*ast.FuncDecl
		for _, d := range x.f.Decls {
			switch t := d.(type) {
			case *ast.FuncDecl:
				if t.Body != nil {
					fdecls = append(fdecls, t)
				}
			case *ast.GenDecl:
				for _, sp := range t.Specs {
					vs, ok := sp.(*ast.ValueSpec)
					if !ok || len(vs.Names) == 0 {
						continue
					}
					for _, v := range vs.Values {
						ast.Inspect(v, func(n ast.Node) bool {
							if fl, ok := n.(*ast.FuncLit); ok {
								fdecls = append(fdecls, &ast.FuncDecl{Name: ast.NewIdent("var:" + vs.Names[0].Name), Type: fl.Type, Body: fl.Body})
								return false
							}
							return true
						})
					}
				}
			}
		}
		for _, fd := range fdecls {
			locals := map[string]bool{}
			addFields := func(fl *ast.FieldList) {
				if fl == nil {
					return
				}
				for _, f := range fl.List {
					if isMapType(f.Type) {
						for _, nm := range f.Names {
							locals[nm.Name] = true
						}
					}
				}
			}
			addFields(fd.Type.Params)
			addFields(fd.Type.Results)
			// sort calls in the function: sort.X(name) / slices.Sort(name) / sort.Slice(name, …)
			sorted := map[string]bool{}
			ast.Inspect(fd.Body, func(n ast.Node) bool {
				switch t := n.(type) {
				case *ast.CallExpr:
					if s, ok := t.Fun.(*ast.SelectorExpr); ok {
						if pk, ok := s.X.(*ast.Ident); ok && (pk.Name == "sort" || pk.Name == "slices") && len(t.Args) > 0 {
							if id, ok := t.Args[0].(*ast.Ident); ok {
								sorted[id.Name] = true
							}
						}
					}
				}
				return true
			})
			ast.Inspect(fd.Body, func(n ast.Node) bool {
				switch t := n.(type) {
				case *ast.RangeStmt:
					isMap := false
					what := ""
					if tv, ok := x.info.Types[t.X]; ok && tv.Type != nil {
						_, isMap = tv.Type.Underlying().(*types.Map)
					}
					switch e := t.X.(type) {
					case *ast.Ident:
						what = e.Name
					case *ast.SelectorExpr:
						what = e.Sel.Name
					case *ast.CallExpr:
						switch f := e.Fun.(type) {
						case *ast.Ident:
							what = f.Name + "()"
						case *ast.SelectorExpr:
							what = f.Sel.Name + "()"
						}
					}
					if isMap {
						key := ""
						if id, ok := t.Key.(*ast.Ident); ok {
							key = id.Name
						}
						cls, det := classifyBody(t.Body, key, locals, func(nm string) bool { return sorted[nm] })
						sites = append(sites, detSite{x.path, fd.Name.Name, "maprange", cls, what + ":" + det, fset.Position(t.Pos()).Line})
					}
				case *ast.GoStmt:
					// "all random draws are made in the main goroutine": does the body of the goroutine call math/rand
					cls := "no-random-draw"
					ast.Inspect(t.Call, func(m ast.Node) bool {
						if c, ok := m.(*ast.CallExpr); ok {
							if s, ok := c.Fun.(*ast.SelectorExpr); ok {
								if pk, ok := s.X.(*ast.Ident); ok && pk.Name == "rand" {
									cls = "draws-random"
								}
							}
						}
						return true
					})
					sites = append(sites, detSite{x.path, fd.Name.Name, "go", cls, "", fset.Position(t.Pos()).Line})
				case *ast.CallExpr:
					if s, ok := t.Fun.(*ast.SelectorExpr); ok {
						if pk, ok := s.X.(*ast.Ident); ok {
							if (pk.Name == "time" && s.Sel.Name == "Now") || (pk.Name == "os" && s.Sel.Name == "Getpid") {
								sites = append(sites, detSite{x.path, fd.Name.Name, pk.Name + "." + s.Sel.Name, "", "", fset.Position(t.Pos()).Line})
							}
							// further values that differ from run to run: elapsed time, process / host / user identity, the
							// environment, temporary names, hash seeds
							if (pk.Name == "time" && (s.Sel.Name == "Since" || s.Sel.Name == "Until")) ||
								(pk.Name == "os" && (s.Sel.Name == "Getppid" || s.Sel.Name == "Hostname" || s.Sel.Name == "Getuid" ||
									s.Sel.Name == "Getenv" || s.Sel.Name == "Environ" || s.Sel.Name == "LookupEnv" || s.Sel.Name == "TempDir" ||
									s.Sel.Name == "CreateTemp" || s.Sel.Name == "MkdirTemp" || s.Sel.Name == "Getwd")) ||
								(pk.Name == "maphash" && s.Sel.Name == "MakeSeed") {
								sites = append(sites, detSite{x.path, fd.Name.Name, "env:" + pk.Name + "." + s.Sel.Name, "", "", fset.Position(t.Pos()).Line})
							}
						}
						// file metadata (the modification time of a file created by this run is the clock)
						if s.Sel.Name == "ModTime" {
							sites = append(sites, detSite{x.path, fd.Name.Name, "env:file.ModTime", "", "", fset.Position(t.Pos()).Line})
						}
						if pk, ok := s.X.(*ast.Ident); ok {
							if pk.Name == "rand" && (s.Sel.Name == "Seed" || s.Sel.Name == "New" || s.Sel.Name == "NewSource") {
								sites = append(sites, detSite{x.path, fd.Name.Name, "rand." + s.Sel.Name, "", "", fset.Position(t.Pos()).Line})
							}
						}
					}
				}
				return true
			})
		}
	}
	var w strings.Builder
	w.WriteString("-- GENERATED by tools/extract (detfacts.go) from the repository working tree. Do not edit.\n")
	w.WriteString("namespace Gv.Gen.DetFacts\n\n")
	w.WriteString("structure Site where\n  file : String\n  fn : String\n  kind : String\n  cls : String\n  detail : String\n  line : Nat\nderiving Repr\n\n")
	w.WriteString("def sites : List Site := [\n")
	lines := make([]string, len(sites))
	for i, s := range sites {
		lines[i] = fmt.Sprintf("  { file := %q, fn := %q, kind := %q, cls := %q, detail := %q, line := %d }", s.file, s.fn, s.kind, s.class, s.detail, s.line)
	}
	w.WriteString(strings.Join(lines, ",\n"))
	w.WriteString("\n]\n\nend Gv.Gen.DetFacts\n")
	writeIfChanged(filepath.Join(out, "DetFacts.lean"), w.String())
}
