package main

// T3 mutation facts for property C19 ("queries never modify their input; copies share nothing"),
// TYPE-CHECKED version (replaces the syntactic tools/extract/mutfacts.go as the source of the facts the
// theorems use).  Output: lean/Gv/Gen/MutFactsT.lean.
//
// The packages of the module (everything except cmd/ and the main package, no tests) are loaded and
// type-checked with golang.org/x/tools/go/packages, offline.  For every function / method with a body we
// run a unification-based (Steensgaard style), flow-insensitive region analysis:
//
//   * every local variable, parameter, receiver, named result and function-literal parameter whose TYPE can
//     carry a reference (pointer, slice, map, chan, func, interface other than `error`, struct / array
//     containing one) belongs to a region; an assignment / range / send / receive / composite-literal
//     element / store `x.f = v`, `x[i] = v`, `x = append(x, v)` of such a value unifies the regions of
//     both sides ("may share memory");
//   * a region carries the set of INPUTS (receiver = input 0 when there is one, then the parameters) whose
//     memory it may share, and the flags global (package-level variable) / unknown;
//   * allocation sites (`make`, `new`, composite literals, `[]uint8(string)`, `append` to a fresh or nil
//     slice, results of calls whose summary says "fresh") start a region WITHOUT inputs: "fresh" is decided
//     from the allocation site, never from a name;
//   * calls are resolved with go/types: a static callee (function, concrete method) is applied through its
//     SUMMARY (which inputs it may store into each other, which inputs / global data its results may
//     share); a call through an interface is applied to EVERY implementation of that method by a type of
//     the analysed packages; summaries are iterated to a fixed point over all functions;
//   * function literals are analysed inside their enclosing function; the parameters of a literal passed to
//     a call are unified with the receiver and the other arguments of that call (the callee hands its data
//     to the callback - Iterate*), a literal called directly / through a local variable is bound to the
//     actual arguments, any other literal gets `unknown` parameters.
//
// Facts per function:
//   writes : statements that write THROUGH a region sharing memory with an input: `x[i] = …`, `x.f = …`
//            through a pointer, `*p = …`, `++/--/op=`, `copy(dst, …)`, `append(dst, …)` (writes into the backing
//            array when capacity allows: `x[:0]`, `x[a:a]` filtering idiom), `delete`, `clear`; each with the
//            input, the kind of location and the TYPE of the written container / the struct owning the field;
//   calls  : (callee id, for each input of the callee the inputs of the caller whose memory may reach it)
//            - only these edges are followed by the Lean closure: a callee working on fresh data is not
//            reached;
//   exts   : calls of functions OUTSIDE the analysed packages (standard library, gonum, …) and of function
//            values, with the type of every argument that shares memory with an input: the Lean side holds the
//            reviewed list of external functions that do not write their arguments, anything else counts
//            as a write (sort.Slice, rand.Shuffle, io.ReadFull, … on an input slice);
//   ret    : the inputs whose memory the (non-error) results may share; retGlobal / retUnknown: package-level / unknown memory;
//   gstores: stores of a reference-carrying value into a location rooted at a package-level variable.
//
// Assumptions (listed in driver/props/c19.py TRUSTED): values of type `error` and strings carry no mutable
// reference; no unsafe / reflect / cgo writes; a region is never split (sound over-approximation).

import (
	"fmt"
	"go/ast"
	"go/token"
	"go/types"
	"os"
	"path/filepath"
	"sort"
	"strings"

	"golang.org/x/tools/go/packages"
)

const modPath = "github.com/evolbioinfo/goalign"

func writeIfChanged(path, content string) {
	if old, err := os.ReadFile(path); err == nil && string(old) == content {
		return
	}
	if err := os.WriteFile(path, []byte(content), 0o644); err != nil {
		fmt.Fprintln(os.Stderr, "mutscan:", err)
		os.Exit(1)
	}
}

// ---------------------------------------------------------------------------------------------- regions

type region struct {
	parent  *region
	inputs  uint64 // bit i: shares memory with input i
	global  bool
	unknown bool
}

func newRegion() *region { return &region{} }

func (r *region) find() *region {
	for r.parent != nil {
		if r.parent.parent != nil {
			r.parent = r.parent.parent
		}
		r = r.parent
	}
	return r
}

func unify(a, b *region) {
	if a == nil || b == nil {
		return
	}
	a, b = a.find(), b.find()
	if a == b {
		return
	}
	b.parent = a
	a.inputs |= b.inputs
	a.global = a.global || b.global
	a.unknown = a.unknown || b.unknown
}

// ---------------------------------------------------------------------------------------------- types

func qual(p *types.Package) string { return p.Name() }

func tstr(t types.Type) string {
	if t == nil {
		return "?"
	}
	return types.TypeString(t, qual)
}

var errorType = types.Universe.Lookup("error").Type()

func carrier(t types.Type) bool { return carrierRec(t, 0) }

func carrierRec(t types.Type, depth int) bool {
	if t == nil {
		return false
	}
	if depth > 8 {
		return true
	}
	if types.Identical(t, errorType) {
		return false
	}
	switch u := t.Underlying().(type) {
	case *types.Basic:
		return u.Kind() == types.UnsafePointer
	case *types.Pointer, *types.Slice, *types.Map, *types.Chan, *types.Signature, *types.Interface:
		return true
	case *types.Struct:
		for i := 0; i < u.NumFields(); i++ {
			if carrierRec(u.Field(i).Type(), depth+1) {
				return true
			}
		}
		return false
	case *types.Array:
		return carrierRec(u.Elem(), depth+1)
	case *types.Tuple:
		for i := 0; i < u.Len(); i++ {
			if carrierRec(u.At(i).Type(), depth+1) {
				return true
			}
		}
		return false
	}
	return true // type parameters and anything unforeseen
}

// ---------------------------------------------------------------------------------------------- program

type summary struct {
	nin                   int
	class                 []int  // class[i] = smallest input index whose region was unified with input i's
	other                 []bool // input i's region reached a package-level variable / unknown memory
	ret                   uint64 // inputs the results may share memory with
	retGlobal, retUnknown bool   // results may share memory with package-level variables / unknown memory
}

func (s *summary) equal(o *summary) bool {
	if s.nin != o.nin || s.ret != o.ret || s.retGlobal != o.retGlobal || s.retUnknown != o.retUnknown {
		return false
	}
	for i := range s.class {
		if s.class[i] != o.class[i] || s.other[i] != o.other[i] {
			return false
		}
	}
	return true
}

type wfact struct {
	root      int
	kind, typ string
	loc, at   string // loc = "<lkind> <type or owner struct>[ <field>]"
}

type cfact struct {
	callee int
	args   [][]int
	at     string
}

type efact struct {
	name, typ string
	roots     []int
	unknown   bool
	at        string
}

type fn struct {
	gstores []string
	id      int
	pkg     *packages.Package
	decl    *ast.FuncDecl
	obj     *types.Func
	file    string
	recv    string
	inputs  []*types.Var // receiver first
	sum     *summary
	writes  []wfact
	calls   []cfact
	exts    []efact
}

type program struct {
	fset  *token.FileSet
	repo  string
	fns   []*fn
	byObj map[string]*fn
	named []*types.Named // named non-interface types of the analysed packages
	impls map[string][]*fn
}

func fkey(f *types.Func) string { return f.Origin().FullName() }

// ---------------------------------------------------------------------------------------------- per-function analysis

type litInfo struct {
	lit    *ast.FuncLit
	params []*types.Var
	ret    *region
	bound  bool
}

type analysis struct {
	p       *program
	f       *fn
	info    *types.Info
	vars    map[types.Object]*region
	globalR *region
	ret     *region
	lits    map[*ast.FuncLit]*litInfo
	litOf   map[types.Object]*litInfo
	litStk  []*litInfo
	emit    bool
	// flow-sensitive refinement ("fresh window", see freshWindow below)
	freshNow  map[types.Object]bool // variables that hold, at the statement being visited, an object allocated by the call that defined them
	freshPend []types.Object        // definitions seen in the statement being visited
	noWindow  map[types.Object]bool // variables captured by a function literal or whose address is taken
}

func (a *analysis) varRegion(o types.Object) *region {
	if r, ok := a.vars[o]; ok {
		return r
	}
	r := newRegion()
	if v, ok := o.(*types.Var); ok && !v.IsField() && v.Parent() != nil && v.Parent() == v.Pkg().Scope() {
		r = a.globalR
	}
	a.vars[o] = r
	return r
}

func (a *analysis) pos(n ast.Node) string {
	p := a.p.fset.Position(n.Pos())
	rel, _ := filepath.Rel(a.p.repo, p.Filename)
	return fmt.Sprintf("%s:%d", filepath.ToSlash(rel), p.Line)
}

func (a *analysis) typeOf(e ast.Expr) types.Type { return a.info.TypeOf(e) }

// region of the memory an expression of carrier type may share; a new region for fresh values
func (a *analysis) reg(e ast.Expr) *region {
	switch x := e.(type) {
	case *ast.Ident:
		o := a.info.Uses[x]
		if o == nil {
			o = a.info.Defs[x]
		}
		switch v := o.(type) {
		case *types.Var:
			if a.emit && a.freshNow[v] {
				return newRegion() // the allocation of the reaching definition, not everything the variable may ever hold
			}
			return a.varRegion(v)
		case *types.Func:
			a.funcValue(x, v)
			return newRegion()
		}
		return newRegion()
	case *ast.ParenExpr:
		return a.reg(x.X)
	case *ast.SelectorExpr:
		if sel, ok := a.info.Selections[x]; ok {
			if sel.Kind() == types.MethodVal || sel.Kind() == types.MethodExpr {
				if f, ok := sel.Obj().(*types.Func); ok {
					a.funcValue(x, f)
				}
			}
			return a.reg(x.X)
		}
		return a.reg(x.Sel) // package-qualified identifier
	case *ast.IndexExpr:
		if tv, ok := a.info.Types[x.X]; ok && tv.IsType() {
			return newRegion()
		}
		if t := a.typeOf(x.X); t != nil {
			if _, isSig := t.Underlying().(*types.Signature); isSig { // generic instantiation
				return a.reg(x.X)
			}
		}
		a.walkExpr(x.Index)
		return a.reg(x.X)
	case *ast.SliceExpr:
		a.walkExpr(x.Low)
		a.walkExpr(x.High)
		a.walkExpr(x.Max)
		return a.reg(x.X)
	case *ast.StarExpr:
		return a.reg(x.X)
	case *ast.TypeAssertExpr:
		return a.reg(x.X)
	case *ast.UnaryExpr:
		return a.reg(x.X) // &x, <-ch, and scalars
	case *ast.BinaryExpr:
		a.walkExpr(x.X)
		a.walkExpr(x.Y)
		return newRegion()
	case *ast.CompositeLit:
		r := newRegion()
		for _, el := range x.Elts {
			v := el
			if kv, ok := el.(*ast.KeyValueExpr); ok {
				v = kv.Value
				if id, isId := kv.Key.(*ast.Ident); !isId || !isFieldObj(a.info.Uses[id]) {
					a.flow(r, kv.Key)
				}
			}
			a.flow(r, v)
		}
		return r
	case *ast.FuncLit:
		a.funcLit(x)
		return newRegion()
	case *ast.CallExpr:
		return a.call(x)
	case *ast.BasicLit:
		return newRegion()
	}
	return newRegion()
}

func isFieldObj(o types.Object) bool {
	v, ok := o.(*types.Var)
	return ok && v.IsField()
}

// evaluate an expression for its effects only
func (a *analysis) walkExpr(e ast.Expr) {
	if e != nil {
		a.reg(e)
	}
}

// value e flows into region r (only if its type can carry a reference)
func (a *analysis) flow(r *region, e ast.Expr) {
	re := a.reg(e)
	if carrier(a.typeOf(e)) {
		unify(r, re)
	}
}

// a function used as a value: conservatively, it may be called with anything the enclosing function holds
func (a *analysis) funcValue(n ast.Node, f *types.Func) {
	if !a.emit {
		return
	}
	callee := a.p.byObj[fkey(f)]
	if callee == nil {
		return
	}
	all := []int{}
	for i := range a.f.inputs {
		all = append(all, i)
	}
	args := make([][]int, len(callee.inputs))
	for j, v := range callee.inputs {
		if carrier(v.Type()) {
			args[j] = all
		}
	}
	a.f.calls = append(a.f.calls, cfact{callee.id, args, a.pos(n) + " (function value)"})
}

func (a *analysis) funcLit(x *ast.FuncLit) *litInfo {
	li := a.lits[x]
	if li == nil {
		li = &litInfo{lit: x, ret: newRegion()}
		for _, fl := range x.Type.Params.List {
			for _, nm := range fl.Names {
				if v, ok := a.info.Defs[nm].(*types.Var); ok {
					li.params = append(li.params, v)
				}
			}
		}
		if x.Type.Results != nil {
			for _, fl := range x.Type.Results.List {
				for _, nm := range fl.Names {
					if v, ok := a.info.Defs[nm].(*types.Var); ok && carrier(v.Type()) {
						unify(li.ret, a.varRegion(v))
					}
				}
			}
		}
		a.lits[x] = li
		a.litStk = append(a.litStk, li)
		a.block(x.Body)
		a.litStk = a.litStk[:len(a.litStk)-1]
	}
	return li
}

// the literal's parameters (and results) share memory with r
func (a *analysis) bindLit(li *litInfo, r *region) {
	li.bound = true
	for _, v := range li.params {
		if carrier(v.Type()) {
			unify(r, a.varRegion(v))
		}
	}
	unify(r, li.ret)
}

func (a *analysis) litOfExpr(e ast.Expr) *litInfo {
	switch x := e.(type) {
	case *ast.FuncLit:
		return a.funcLit(x)
	case *ast.ParenExpr:
		return a.litOfExpr(x.X)
	case *ast.Ident:
		if o := a.info.Uses[x]; o != nil {
			return a.litOf[o]
		}
	}
	return nil
}

func (a *analysis) tags(r *region) (roots []int, unknown bool) {
	r = r.find()
	for i := 0; i < len(a.f.inputs); i++ {
		if r.inputs&(1<<uint(i)) != 0 {
			roots = append(roots, i)
		}
	}
	return roots, r.unknown
}

func (a *analysis) inputKind(i int) (string, string) {
	v := a.f.inputs[i]
	if i == 0 && a.f.recv != "" {
		return "recv", tstr(v.Type())
	}
	return "param", tstr(v.Type())
}

// can a value of type `from` reach (through pointers, elements, fields, implementations of an interface) a
// location of type `target`?  Used to drop writes attributed to an input only because the unification merged it
// with the written container (a `[]uint8` parameter stored into the receiver cannot be the way to the receiver's fields).
func (p *program) canReach(from, target types.Type) bool {
	if target == nil || from == nil {
		return true
	}
	seen := map[string]bool{}
	var rec func(t types.Type, depth int) bool
	rec = func(t types.Type, depth int) bool {
		if t == nil || depth > 12 {
			return true
		}
		if types.Identical(t, target) {
			return true
		}
		k := tstr(t)
		if seen[k] {
			return false
		}
		seen[k] = true
		switch u := t.Underlying().(type) {
		case *types.Basic:
			return u.Kind() == types.UnsafePointer
		case *types.Pointer:
			return rec(u.Elem(), depth+1)
		case *types.Slice:
			return rec(u.Elem(), depth+1)
		case *types.Array:
			return rec(u.Elem(), depth+1)
		case *types.Chan:
			return rec(u.Elem(), depth+1)
		case *types.Map:
			return rec(u.Key(), depth+1) || rec(u.Elem(), depth+1)
		case *types.Struct:
			for i := 0; i < u.NumFields(); i++ {
				if rec(u.Field(i).Type(), depth+1) {
					return true
				}
			}
			return false
		case *types.Interface:
			if types.Identical(t, errorType) {
				return false
			}
			if u.NumMethods() == 0 {
				return true // any
			}
			for _, n := range p.named {
				for _, c := range []types.Type{n, types.NewPointer(n)} {
					if types.Implements(c, u) && rec(c, depth+1) {
						return true
					}
				}
			}
			return false
		}
		return true // functions (closures), type parameters
	}
	return rec(from, 0)
}

func (a *analysis) write(r *region, loc string, target types.Type, n ast.Node) {
	if !a.emit {
		return
	}
	roots, unk := a.tags(r)
	for _, i := range roots {
		if !a.p.canReach(a.f.inputs[i].Type(), target) {
			continue
		}
		k, t := a.inputKind(i)
		a.f.writes = append(a.f.writes, wfact{i, k, t, loc, a.pos(n)})
	}
	if unk {
		a.f.writes = append(a.f.writes, wfact{99, "unknown", "", loc, a.pos(n)})
	}
}

// the struct that declares the selected field, as "pkg.Type.field"
func (a *analysis) fieldName(x *ast.SelectorExpr, sel *types.Selection) (string, types.Type) {
	t := sel.Recv()
	owner := "?"
	var ownerT types.Type
	idx := sel.Index()
	for k, i := range idx {
		if p, ok := t.Underlying().(*types.Pointer); ok {
			t = p.Elem()
		}
		if n, ok := t.(*types.Named); ok {
			owner = tstr(n)
			ownerT = n
		} else if k > 0 {
			owner = tstr(t)
			ownerT = t
		}
		st, ok := t.Underlying().(*types.Struct)
		if !ok {
			break
		}
		t = st.Field(i).Type()
	}
	return owner + " " + x.Sel.Name, ownerT
}

// does the path of the selection dereference a pointer (otherwise the field of a struct VALUE is written)
func selThroughPointer(sel *types.Selection) bool {
	if sel.Indirect() {
		return true
	}
	if _, ok := sel.Recv().Underlying().(*types.Pointer); ok {
		return true
	}
	return false
}

// an assignment-like write to the location lhs
func (a *analysis) writeTo(lhs ast.Expr, n ast.Node) {
	switch x := lhs.(type) {
	case *ast.ParenExpr:
		a.writeTo(x.X, n)
	case *ast.Ident:
		// a local variable (or a package-level one: not an input)
	case *ast.IndexExpr:
		a.walkExpr(x.Index)
		t := a.typeOf(x.X)
		if t == nil {
			return
		}
		switch u := t.Underlying().(type) {
		case *types.Array:
			a.writeTo(x.X, n)
		case *types.Map:
			a.write(a.reg(x.X), "mapelem "+tstr(t), t, n)
		case *types.Pointer: // pointer to array
			a.write(a.reg(x.X), "elem "+tstr(u.Elem()), u.Elem(), n)
		default:
			a.write(a.reg(x.X), "elem "+tstr(t), t, n)
		}
	case *ast.SelectorExpr:
		sel, ok := a.info.Selections[x]
		if !ok {
			return // package-level variable of another package
		}
		if selThroughPointer(sel) {
			fname, owner := a.fieldName(x, sel)
			a.write(a.reg(x.X), "field "+fname, owner, n)
		} else {
			a.writeTo(x.X, n)
		}
	case *ast.StarExpr:
		a.write(a.reg(x.X), "deref "+tstr(a.typeOf(x.X)), a.typeOf(x.X), n)
	}
}

// root region of the container a location lives in (for stores of carrier values)
func (a *analysis) containerRegion(lhs ast.Expr) *region {
	switch x := lhs.(type) {
	case *ast.ParenExpr:
		return a.containerRegion(x.X)
	case *ast.Ident:
		if x.Name == "_" {
			return newRegion()
		}
		return a.reg(x)
	case *ast.IndexExpr:
		return a.reg(x.X)
	case *ast.SelectorExpr:
		return a.reg(x)
	case *ast.StarExpr:
		return a.reg(x.X)
	}
	return newRegion()
}

func (a *analysis) assign(lhs []ast.Expr, rhs []ast.Expr, n ast.Node) {
	if len(lhs) == len(rhs) {
		for i := range lhs {
			rr := a.reg(rhs[i])
			if len(lhs) == 1 {
				a.freshDef(lhs[0], rhs[0], rr)
			}
			if id, ok := lhs[i].(*ast.Ident); ok {
				if li := a.litOfExpr(rhs[i]); li != nil {
					if o := a.objOf(id); o != nil {
						a.litOf[o] = li
					}
				}
			}
			if carrier(a.typeOf(rhs[i])) {
				unify(a.containerRegion(lhs[i]), rr)
				a.globalStore(lhs[i], n)
			}
			a.writeTo(lhs[i], n)
		}
		return
	}
	// v, ok := m[k] / x.(T) / <-ch ; a, b := f()
	if len(rhs) == 1 {
		rr := a.reg(rhs[0])
		var tup *types.Tuple
		if t, ok := a.typeOf(rhs[0]).(*types.Tuple); ok {
			tup = t
		}
		for i, l := range lhs {
			var t types.Type
			if tup != nil && i < tup.Len() {
				t = tup.At(i).Type()
			} else if i == 0 {
				t = a.typeOf(rhs[0])
			}
			if t != nil && carrier(t) {
				unify(a.containerRegion(l), rr)
				a.globalStore(l, n)
			}
			a.writeTo(l, n)
		}
	}
}

// a value that can carry a reference is stored into a location rooted (syntactically) at a package-level variable
func (a *analysis) globalStore(lhs ast.Expr, n ast.Node) {
	if !a.emit {
		return
	}
	e := lhs
	for {
		switch x := e.(type) {
		case *ast.ParenExpr:
			e = x.X
			continue
		case *ast.IndexExpr:
			e = x.X
			continue
		case *ast.SliceExpr:
			e = x.X
			continue
		case *ast.StarExpr:
			e = x.X
			continue
		case *ast.SelectorExpr:
			if _, ok := a.info.Selections[x]; ok {
				e = x.X
				continue
			}
			e = x.Sel
			continue
		case *ast.Ident:
			if v, ok := a.objOf(x).(*types.Var); ok && !v.IsField() && v.Pkg() != nil && v.Parent() == v.Pkg().Scope() {
				a.f.gstores = append(a.f.gstores, v.Pkg().Name()+"."+v.Name()+"@"+a.pos(n))
			}
		}
		return
	}
}

func (a *analysis) objOf(id *ast.Ident) types.Object {
	if o := a.info.Defs[id]; o != nil {
		return o
	}
	return a.info.Uses[id]
}

func (a *analysis) block(b *ast.BlockStmt) {
	if b == nil {
		return
	}
	// the windows of the enclosing blocks are suspended: only straight-line code of ONE statement list is refined
	saved := a.freshNow
	a.freshNow = map[types.Object]bool{}
	for _, s := range b.List {
		if a.emit {
			for o := range a.freshNow {
				if !a.windowAllows(s, o) {
					delete(a.freshNow, o)
				}
			}
		}
		a.freshPend = nil
		a.stmt(s)
		if a.emit {
			if _, isAssign := s.(*ast.AssignStmt); isAssign {
				for _, o := range a.freshPend {
					a.freshNow[o] = true
				}
			}
		}
		a.freshPend = nil
	}
	a.freshNow = saved
}

// ---------------------------------------------------------------------------------------------- fresh windows
//
// The only flow-sensitive refinement of the analysis.  After a statement `x := f(…)` / `x = f(…)` (one variable, one call) whose
// result region - BEFORE it is merged into the region of x - shares memory with no input, no package-level variable and
// no unknown memory (decided from the summaries of the callees and the final regions of the arguments), the variable x
// holds an object that nothing else refers to.  In the statements that FOLLOW IN THE SAME STATEMENT LIST, as long as every
// statement either does not mention x at all or mentions it only as the receiver / a plain argument of calls whose
// summaries (every implementation for an interface call) keep that input isolated (not stored into another input, no
// other input stored into it, not handed to package-level / unknown memory, not part of the results), the object stays
// unshared and still reaches no input memory; a use of x in such a call is therefore the fresh allocation, and the call
// edge carries no input for it.  Excluded: variables captured by a function literal or whose address is taken (an
// assignment / alias the statement list does not show), labelled statements (jumps into the window), calls with function
// literal arguments.  The refinement is applied in the emitting pass only: an isolated call unifies nothing through that
// argument, so the regions and the summaries are the same with and without it.

func (a *analysis) computeNoWindow() {
	a.noWindow = map[types.Object]bool{}
	var lits []*ast.FuncLit
	var visit func(n ast.Node) bool
	visit = func(n ast.Node) bool {
		switch x := n.(type) {
		case *ast.FuncLit:
			lits = append(lits, x)
			ast.Inspect(x.Body, visit)
			lits = lits[:len(lits)-1]
			return false
		case *ast.UnaryExpr:
			if x.Op == token.AND {
				ast.Inspect(x.X, func(m ast.Node) bool {
					if id, ok := m.(*ast.Ident); ok {
						if o := a.objOf(id); o != nil {
							a.noWindow[o] = true
						}
					}
					return true
				})
			}
		case *ast.Ident:
			if len(lits) > 0 {
				if o := a.objOf(x); o != nil {
					for _, l := range lits {
						if o.Pos() < l.Pos() || o.Pos() >= l.End() {
							a.noWindow[o] = true
						}
					}
				}
			}
		}
		return true
	}
	ast.Inspect(a.f.decl.Body, visit)
}

// a definition `x = call` whose value (region rr, not yet merged with x) is fresh
func (a *analysis) freshDef(lhs, rhs ast.Expr, rr *region) {
	if !a.emit || len(a.litStk) > 0 {
		return
	}
	id, ok := lhs.(*ast.Ident)
	if !ok || id.Name == "_" {
		return
	}
	call, ok := unparen(rhs).(*ast.CallExpr)
	if !ok {
		return
	}
	if tv, ok := a.info.Types[call.Fun]; ok && tv.IsType() {
		return
	}
	v, ok := a.objOf(id).(*types.Var)
	if !ok || v.IsField() || v.Pkg() == nil || v.Parent() == v.Pkg().Scope() || a.noWindow[v] || !carrier(v.Type()) {
		return
	}
	for _, e := range call.Args { // x = f(x): the old value of x is an argument - handled by the regions, but keep it simple
		mentions := false
		ast.Inspect(e, func(m ast.Node) bool {
			if i2, ok := m.(*ast.Ident); ok && a.objOf(i2) == v {
				mentions = true
			}
			return true
		})
		if mentions {
			return
		}
	}
	r := rr.find()
	if r.inputs != 0 || r.global || r.unknown {
		return
	}
	a.freshPend = append(a.freshPend, v)
}

// the callees a call may reach (nil: not resolved inside the analysed packages) and the input index of the receiver
func (a *analysis) staticTargets(x *ast.CallExpr) (targets []*fn, recv ast.Expr, ok bool) {
	if tv, isT := a.info.Types[x.Fun]; isT && tv.IsType() {
		return nil, nil, false
	}
	fun := unparen(x.Fun)
	if ix, isIx := fun.(*ast.IndexExpr); isIx {
		fun = unparen(ix.X)
	}
	var callee *types.Func
	switch f := fun.(type) {
	case *ast.Ident:
		callee, _ = a.info.Uses[f].(*types.Func)
	case *ast.SelectorExpr:
		if sel, isSel := a.info.Selections[f]; isSel {
			if sel.Kind() == types.MethodVal {
				callee, _ = sel.Obj().(*types.Func)
				recv = f.X
			}
		} else {
			callee, _ = a.info.Uses[f.Sel].(*types.Func)
		}
	}
	if callee == nil {
		return nil, nil, false
	}
	sig := callee.Type().(*types.Signature)
	if recv != nil && sig.Recv() != nil && types.IsInterface(sig.Recv().Type()) {
		it := a.typeOf(recv)
		if !types.IsInterface(it) {
			it = sig.Recv().Type()
		}
		impls := a.p.implementations(it, callee)
		return impls, recv, len(impls) > 0
	}
	if t := a.p.byObj[fkey(callee)]; t != nil {
		return []*fn{t}, recv, true
	}
	return nil, nil, false
}

func isolatedInput(s *summary, i int) bool {
	if i < 0 || i >= s.nin || s.class[i] != i || s.other[i] || s.ret&(1<<uint(i)) != 0 {
		return false
	}
	for j := 0; j < s.nin; j++ {
		if j != i && s.class[j] == i {
			return false
		}
	}
	return true
}

// may the window of variable o continue through statement s?
func (a *analysis) windowAllows(s ast.Stmt, o types.Object) bool {
	switch s.(type) {
	case *ast.ExprStmt, *ast.AssignStmt:
	default:
		// any other statement: only when it does not mention the variable at all
		mentioned := false
		ast.Inspect(s, func(m ast.Node) bool {
			if _, isLabel := m.(*ast.LabeledStmt); isLabel {
				mentioned = true
			}
			if id, ok := m.(*ast.Ident); ok && a.objOf(id) == o {
				mentioned = true
			}
			return true
		})
		return !mentioned
	}
	allowed := map[*ast.Ident]bool{}
	bad := false
	ast.Inspect(s, func(m ast.Node) bool {
		switch c := m.(type) {
		case *ast.FuncLit:
			bad = true // (a captured variable has no window anyway)
			return false
		case *ast.CallExpr:
			targets, recv, ok := a.staticTargets(c)
			if !ok {
				return true
			}
			for _, e := range c.Args {
				if _, isLit := unparen(e).(*ast.FuncLit); isLit {
					return true
				}
				if id, isId := unparen(e).(*ast.Ident); isId {
					if ob := a.info.Uses[id]; ob != nil && a.litOf[ob] != nil {
						return true
					}
				}
				if t, isTuple := a.typeOf(e).(*types.Tuple); isTuple && t != nil {
					return true
				}
			}
			k := 0
			var cands []*ast.Ident
			var idxs []int
			if recv != nil {
				k = 1
				if id, isId := unparen(recv).(*ast.Ident); isId && a.objOf(id) == o {
					cands = append(cands, id)
					idxs = append(idxs, 0)
				}
			}
			for i, e := range c.Args {
				if id, isId := unparen(e).(*ast.Ident); isId && a.objOf(id) == o {
					cands = append(cands, id)
					idxs = append(idxs, k+i)
				}
			}
			for q, id := range cands {
				good := true
				for _, t := range targets {
					sig := t.obj.Type().(*types.Signature)
					if sig.Variadic() && idxs[q] >= t.sum.nin-1 {
						good = false
					}
					if !isolatedInput(t.sum, idxs[q]) {
						good = false
					}
				}
				if good {
					allowed[id] = true
				}
			}
		}
		return true
	})
	if bad {
		return false
	}
	ok := true
	ast.Inspect(s, func(m ast.Node) bool {
		if id, isId := m.(*ast.Ident); isId && a.objOf(id) == o && !allowed[id] {
			ok = false
		}
		return true
	})
	return ok
}

func (a *analysis) stmt(s ast.Stmt) {
	switch x := s.(type) {
	case nil:
	case *ast.BlockStmt:
		a.block(x)
	case *ast.ExprStmt:
		a.walkExpr(x.X)
	case *ast.AssignStmt:
		a.assign(x.Lhs, x.Rhs, x)
	case *ast.IncDecStmt:
		a.walkExpr(x.X)
		a.writeTo(x.X, x)
	case *ast.DeclStmt:
		if gd, ok := x.Decl.(*ast.GenDecl); ok {
			for _, sp := range gd.Specs {
				if vs, ok := sp.(*ast.ValueSpec); ok && len(vs.Values) > 0 {
					lhs := make([]ast.Expr, len(vs.Names))
					for i, nm := range vs.Names {
						lhs[i] = nm
					}
					a.assign(lhs, vs.Values, x)
				}
			}
		}
	case *ast.ReturnStmt:
		target := a.ret
		if len(a.litStk) > 0 {
			target = a.litStk[len(a.litStk)-1].ret
		}
		for _, r := range x.Results {
			rr := a.reg(r)
			t := a.typeOf(r)
			if carrier(t) {
				unify(target, rr)
			}
		}
	case *ast.IfStmt:
		a.stmt(x.Init)
		a.walkExpr(x.Cond)
		a.block(x.Body)
		a.stmt(x.Else)
	case *ast.ForStmt:
		a.stmt(x.Init)
		a.walkExpr(x.Cond)
		a.stmt(x.Post)
		a.block(x.Body)
	case *ast.RangeStmt:
		rx := a.reg(x.X)
		t := a.typeOf(x.X)
		if x.Key != nil {
			if kt := a.typeOf(x.Key); kt != nil && carrier(kt) {
				unify(a.containerRegion(x.Key), rx)
			}
			if x.Tok == token.ASSIGN {
				a.writeTo(x.Key, x)
			}
		}
		if x.Value != nil {
			if vt := a.typeOf(x.Value); vt != nil && carrier(vt) {
				unify(a.containerRegion(x.Value), rx)
			}
			if x.Tok == token.ASSIGN {
				a.writeTo(x.Value, x)
			}
		}
		_ = t
		a.block(x.Body)
	case *ast.SwitchStmt:
		a.stmt(x.Init)
		a.walkExpr(x.Tag)
		a.block(x.Body)
	case *ast.TypeSwitchStmt:
		a.stmt(x.Init)
		var src *region
		switch as := x.Assign.(type) {
		case *ast.AssignStmt:
			if ta, ok := as.Rhs[0].(*ast.TypeAssertExpr); ok {
				src = a.reg(ta.X)
			}
		case *ast.ExprStmt:
			a.walkExpr(as.X)
		}
		for _, c := range x.Body.List {
			cc := c.(*ast.CaseClause)
			if o := a.info.Implicits[cc]; o != nil && src != nil && carrier(o.Type()) {
				unify(a.varRegion(o), src)
			}
			for _, st := range cc.Body {
				a.stmt(st)
			}
		}
	case *ast.CaseClause:
		for _, e := range x.List {
			a.walkExpr(e)
		}
		for _, st := range x.Body {
			a.stmt(st)
		}
	case *ast.SelectStmt:
		a.block(x.Body)
	case *ast.CommClause:
		a.stmt(x.Comm)
		for _, st := range x.Body {
			a.stmt(st)
		}
	case *ast.SendStmt:
		rc := a.reg(x.Chan)
		a.flow(rc, x.Value)
	case *ast.GoStmt:
		a.walkExpr(x.Call)
	case *ast.DeferStmt:
		a.walkExpr(x.Call)
	case *ast.LabeledStmt:
		a.stmt(x.Stmt)
	case *ast.BranchStmt, *ast.EmptyStmt:
	}
}

// ---------------------------------------------------------------------------------------------- calls

func (a *analysis) applySummary(callee *fn, argR []*region, res *region, n ast.Node) {
	s := callee.sum
	for i := 0; i < s.nin && i < len(argR); i++ {
		if argR[i] == nil {
			continue
		}
		if s.class[i] != i && s.class[i] < len(argR) && argR[s.class[i]] != nil {
			unify(argR[s.class[i]], argR[i])
		}
		if s.other[i] {
			argR[i].find().global = true
		}
		if s.ret&(1<<uint(i)) != 0 {
			unify(res, argR[i])
		}
	}
	if s.retGlobal {
		res.find().global = true
	}
	if s.retUnknown {
		res.find().unknown = true
	}
	if a.emit {
		args := make([][]int, len(callee.inputs))
		any := false
		for j := range callee.inputs {
			if j < len(argR) && argR[j] != nil {
				roots, unk := a.tags(argR[j])
				if unk {
					roots = append(roots, 99)
				}
				args[j] = roots
				any = any || len(roots) > 0
			}
		}
		if any {
			a.f.calls = append(a.f.calls, cfact{callee.id, args, a.pos(n)})
		}
	}
}

// regions of the actual arguments, one per input of a callee with `nin` inputs (nil: not a carrier)
func (a *analysis) argRegions(recv ast.Expr, args []ast.Expr, nin int, variadic bool) ([]*region, []*region) {
	var all []*region
	out := make([]*region, nin)
	k := 0
	if recv != nil {
		r := a.reg(recv)
		if nin > 0 {
			out[0] = r
		}
		all = append(all, r)
		k = 1
	}
	for i, e := range args {
		r := a.reg(e)
		t := a.typeOf(e)
		if !carrier(t) {
			continue
		}
		all = append(all, r)
		j := k + i
		if _, isTuple := t.(*types.Tuple); isTuple { // f(g()) with a multi-valued g
			for q := k; q < nin; q++ {
				if out[q] == nil {
					out[q] = r
				} else {
					unify(out[q], r)
				}
			}
			continue
		}
		if j >= nin {
			j = nin - 1
		}
		if j < 0 {
			continue
		}
		if out[j] == nil {
			out[j] = r
		} else {
			unify(out[j], r)
		}
	}
	_ = variadic
	return out, all
}

func (a *analysis) call(x *ast.CallExpr) *region {
	res := newRegion()
	// conversion
	if tv, ok := a.info.Types[x.Fun]; ok && tv.IsType() {
		if len(x.Args) != 1 {
			return res
		}
		from := a.typeOf(x.Args[0])
		r := a.reg(x.Args[0])
		if from == nil || !carrier(from) || !carrier(tv.Type) {
			return res // string -> []byte / []rune allocate; scalars
		}
		if _, isStr := from.Underlying().(*types.Basic); isStr {
			return res
		}
		return r
	}
	// builtins
	if id, ok := unparen(x.Fun).(*ast.Ident); ok {
		if b, ok := a.info.Uses[id].(*types.Builtin); ok {
			return a.builtin(b.Name(), x)
		}
	}
	var recv ast.Expr
	var callee *types.Func
	fun := unparen(x.Fun)
	if ix, ok := fun.(*ast.IndexExpr); ok { // explicit instantiation f[T](…)
		fun = unparen(ix.X)
	}
	switch f := fun.(type) {
	case *ast.Ident:
		if o, ok := a.info.Uses[f].(*types.Func); ok {
			callee = o
		}
	case *ast.SelectorExpr:
		if sel, ok := a.info.Selections[f]; ok {
			if sel.Kind() == types.MethodVal {
				callee, _ = sel.Obj().(*types.Func)
				recv = f.X
			}
		} else if o, ok := a.info.Uses[f.Sel].(*types.Func); ok {
			callee = o
		}
	}
	lits := []*litInfo{}
	for _, e := range x.Args {
		if li := a.litOfExpr(e); li != nil {
			lits = append(lits, li)
		}
	}
	bindLits := func(all []*region) {
		if len(lits) == 0 {
			return
		}
		g := newRegion()
		for _, r := range all {
			unify(g, r)
		}
		unify(g, res)
		for _, li := range lits {
			a.bindLit(li, g)
		}
	}
	if callee != nil {
		sig := callee.Type().(*types.Signature)
		nin := sig.Params().Len()
		if sig.Recv() != nil {
			nin++
		}
		// interface method: every implementation in the analysed packages
		if recv != nil && sig.Recv() != nil && types.IsInterface(sig.Recv().Type()) {
			it := a.typeOf(recv)
			if !types.IsInterface(it) { // promoted through an embedded interface
				it = sig.Recv().Type()
			}
			impls := a.p.implementations(it, callee)
			argR, all := a.argRegions(recv, x.Args, nin, sig.Variadic())
			if len(impls) > 0 {
				for _, im := range impls {
					a.applySummary(im, argR, res, x)
				}
				bindLits(all)
				return res
			}
			a.external(tstr(sig.Recv().Type())+"."+callee.Name(), recv, x, all, res)
			bindLits(all)
			return res
		}
		if target := a.p.byObj[fkey(callee)]; target != nil {
			argR, all := a.argRegions(recv, x.Args, nin, sig.Variadic())
			a.applySummary(target, argR, res, x)
			bindLits(all)
			return res
		}
		_, all := a.argRegions(recv, x.Args, nin, sig.Variadic())
		name := callee.FullName()
		a.external(name, recv, x, all, res)
		bindLits(all)
		return res
	}
	// dynamic call: a function literal called directly or through a local variable is bound to its arguments
	if li := a.litOfExpr(fun); li != nil {
		li.bound = true
		k := 0
		for _, e := range x.Args {
			r := a.reg(e)
			if k < len(li.params) {
				if carrier(li.params[k].Type()) && carrier(a.typeOf(e)) {
					unify(a.varRegion(li.params[k]), r)
				}
				k++
			}
		}
		unify(res, li.ret)
		return res
	}
	// call of a function value (parameter, field, result of a call): hands its arguments to unknown code
	rf := a.reg(fun)
	var all []*region
	if carrier(a.typeOf(fun)) {
		all = append(all, rf)
	}
	for _, e := range x.Args {
		r := a.reg(e)
		if carrier(a.typeOf(e)) {
			all = append(all, r)
		}
	}
	fname := "(function value)"
	if id, ok := fun.(*ast.Ident); ok {
		if v, ok := a.info.Uses[id].(*types.Var); ok {
			for _, in := range a.f.inputs {
				if in == v {
					// the function comes from the caller: a literal there has been bound to the arguments of that call,
					// a named function gave a conservative call edge
					fname = "(callback parameter)"
				}
			}
		}
	}
	a.externalArgs(fname, nil, x.Args, x, all, res)
	bindLits(all)
	return res
}

func unparen(e ast.Expr) ast.Expr {
	for {
		p, ok := e.(*ast.ParenExpr)
		if !ok {
			return e
		}
		e = p.X
	}
}

func (a *analysis) external(name string, recv ast.Expr, x *ast.CallExpr, all []*region, res *region) {
	a.externalArgs(name, recv, x.Args, x, all, res)
}

// a function outside the analysed packages: its results may share memory with any argument; every
// argument that shares memory with an input is recorded (the Lean side decides whether the callee writes)
func (a *analysis) externalArgs(name string, recv ast.Expr, args []ast.Expr, n ast.Node, all []*region, res *region) {
	for _, r := range all {
		unify(res, r)
	}
	if !a.emit {
		return
	}
	es := []ast.Expr{}
	if recv != nil {
		es = append(es, recv)
	}
	es = append(es, args...)
	for _, e := range es {
		t := a.typeOf(e)
		if !carrier(t) {
			continue
		}
		if _, isLit := unparen(e).(*ast.FuncLit); isLit {
			continue
		}
		roots, unk := a.tags(a.reg2(e))
		if len(roots) == 0 && !unk {
			continue
		}
		a.f.exts = append(a.f.exts, efact{name, tstr(t), roots, unk, a.pos(n)})
	}
}

// region of an expression that has already been evaluated (no effects emitted twice)
func (a *analysis) reg2(e ast.Expr) *region {
	save := a.emit
	a.emit = false
	r := a.reg(e)
	a.emit = save
	return r
}

func (a *analysis) builtin(name string, x *ast.CallExpr) *region {
	res := newRegion()
	switch name {
	case "append":
		if len(x.Args) == 0 {
			return res
		}
		r0 := a.reg(x.Args[0])
		st := a.typeOf(x.Args[0])
		elemCarrier := false
		if st != nil {
			if sl, ok := st.Underlying().(*types.Slice); ok {
				elemCarrier = carrier(sl.Elem())
			}
		}
		for i, e := range x.Args[1:] {
			re := a.reg(e)
			if elemCarrier && carrier(a.typeOf(e)) {
				unify(r0, re)
			}
			_ = i
		}
		if len(x.Args) > 1 {
			a.write(r0, "append "+tstr(st), st, x)
		}
		return r0
	case "copy":
		if len(x.Args) == 2 {
			r0 := a.reg(x.Args[0])
			r1 := a.reg(x.Args[1])
			st := a.typeOf(x.Args[0])
			if sl, ok := st.Underlying().(*types.Slice); ok && carrier(sl.Elem()) {
				unify(r0, r1)
				a.globalStore(x.Args[0], x)
			}
			a.write(r0, "copy "+tstr(st), st, x)
		}
		return res
	case "delete", "clear":
		if len(x.Args) > 0 {
			r0 := a.reg(x.Args[0])
			for _, e := range x.Args[1:] {
				a.walkExpr(e)
			}
			a.write(r0, name+" "+tstr(a.typeOf(x.Args[0])), a.typeOf(x.Args[0]), x)
		}
		return res
	case "make", "new":
		for _, e := range x.Args[1:] {
			a.walkExpr(e)
		}
		return res
	case "min", "max":
		for _, e := range x.Args {
			unify(res, a.reg(e))
		}
		return res
	default: // len cap panic print println close complex real imag recover
		for _, e := range x.Args {
			a.walkExpr(e)
		}
		return res
	}
}

// the concrete methods that a call of interface method m on static type it may reach
func (p *program) implementations(it types.Type, m *types.Func) []*fn {
	key := tstr(it) + "|" + m.Name()
	if r, ok := p.impls[key]; ok {
		return r
	}
	iface, _ := it.Underlying().(*types.Interface)
	var out []*fn
	seen := map[int]bool{}
	if iface != nil {
		for _, n := range p.named {
			for _, t := range []types.Type{n, types.NewPointer(n)} {
				if !types.Implements(t, iface) {
					continue
				}
				ms := types.NewMethodSet(t)
				if sel := ms.Lookup(m.Pkg(), m.Name()); sel != nil {
					if f, ok := sel.Obj().(*types.Func); ok {
						if target := p.byObj[fkey(f)]; target != nil && !seen[target.id] {
							seen[target.id] = true
							out = append(out, target)
						}
					}
				}
			}
		}
	}
	sort.Slice(out, func(i, j int) bool { return out[i].id < out[j].id })
	p.impls[key] = out
	return out
}

// ---------------------------------------------------------------------------------------------- driver

func (p *program) analyse(f *fn, emit bool) *summary {
	a := &analysis{p: p, f: f, info: f.pkg.TypesInfo, vars: map[types.Object]*region{}, globalR: &region{global: true},
		ret: newRegion(), lits: map[*ast.FuncLit]*litInfo{}, litOf: map[types.Object]*litInfo{}, freshNow: map[types.Object]bool{}}
	inR := make([]*region, len(f.inputs))
	for i, v := range f.inputs {
		r := newRegion()
		r.inputs = 1 << uint(i)
		inR[i] = r
		a.vars[v] = r
	}
	sig := f.obj.Type().(*types.Signature)
	for i := 0; i < sig.Results().Len(); i++ {
		v := sig.Results().At(i)
		if v.Name() != "" && v.Name() != "_" && carrier(v.Type()) {
			unify(a.ret, a.varRegion(v))
		}
	}
	// first pass: unification only (so that writes are attributed with the final regions); literals that
	// are never bound get unknown parameters
	a.emit = false
	a.block(f.decl.Body)
	for _, li := range a.lits {
		if !li.bound {
			for _, v := range li.params {
				if carrier(v.Type()) {
					a.varRegion(v).find().unknown = true
				}
			}
		}
	}
	if emit {
		f.writes, f.calls, f.exts, f.gstores = nil, nil, nil, nil
		a.computeNoWindow()
		a.emit = true
		a.lits = map[*ast.FuncLit]*litInfo{}
		// keep the parameter variables of the literals in their regions: funcLit() re-creates the infos
		a.litOf = map[types.Object]*litInfo{}
		a.block(f.decl.Body)
	}
	s := &summary{nin: len(f.inputs), class: make([]int, len(f.inputs)), other: make([]bool, len(f.inputs))}
	for i := range f.inputs {
		s.class[i] = i
		ri := inR[i].find()
		for j := 0; j < i; j++ {
			if inR[j].find() == ri {
				s.class[i] = j
				break
			}
		}
		s.other[i] = ri.global || ri.unknown
	}
	rr := a.ret.find()
	s.ret = rr.inputs
	s.retGlobal = rr.global
	s.retUnknown = rr.unknown
	return s
}

func qstrs(l []string) string {
	p := make([]string, len(l))
	for i, s := range l {
		p[i] = fmt.Sprintf("%q", s)
	}
	return "[" + strings.Join(p, ", ") + "]"
}

func nats(l []int) string {
	p := make([]string, len(l))
	for i, s := range l {
		p[i] = fmt.Sprintf("%d", s)
	}
	return "[" + strings.Join(p, ", ") + "]"
}

func main() {
	if len(os.Args) != 3 {
		fmt.Fprintln(os.Stderr, "usage: mutscan <repo> <outdir>")
		os.Exit(2)
	}
	repo, out := os.Args[1], os.Args[2]
	if r, err := filepath.EvalSymlinks(repo); err == nil {
		repo = r
	}
	cfg := &packages.Config{Mode: packages.NeedName | packages.NeedFiles | packages.NeedSyntax | packages.NeedTypes | packages.NeedTypesInfo | packages.NeedImports | packages.NeedDeps,
		Dir: repo, Tests: false}
	pkgs, err := packages.Load(cfg, "./...")
	if err != nil {
		fmt.Fprintln(os.Stderr, "mutscan: load:", err)
		os.Exit(1)
	}
	sort.Slice(pkgs, func(i, j int) bool { return pkgs[i].PkgPath < pkgs[j].PkgPath })
	p := &program{repo: repo, byObj: map[string]*fn{}, impls: map[string][]*fn{}}
	for _, pk := range pkgs {
		if len(pk.Errors) > 0 {
			fmt.Fprintln(os.Stderr, "mutscan: package", pk.PkgPath, "has errors:", pk.Errors[0])
			os.Exit(1)
		}
		if pk.Name == "main" || pk.PkgPath == modPath+"/cmd" || strings.HasPrefix(pk.PkgPath, modPath+"/cmd/") {
			continue
		}
		p.fset = pk.Fset
		files := append([]*ast.File{}, pk.Syntax...)
		sort.Slice(files, func(i, j int) bool {
			return pk.Fset.Position(files[i].Pos()).Filename < pk.Fset.Position(files[j].Pos()).Filename
		})
		for _, f := range files {
			full := pk.Fset.Position(f.Pos()).Filename
			if r, err := filepath.EvalSymlinks(full); err == nil {
				full = r
			}
			rel, _ := filepath.Rel(repo, full)
			if strings.HasSuffix(rel, "_test.go") || strings.HasPrefix(rel, "..") {
				continue
			}
			for _, d := range f.Decls {
				fd, ok := d.(*ast.FuncDecl)
				if !ok || fd.Body == nil {
					continue
				}
				obj, _ := pk.TypesInfo.Defs[fd.Name].(*types.Func)
				if obj == nil {
					continue
				}
				x := &fn{id: len(p.fns), pkg: pk, decl: fd, obj: obj, file: filepath.ToSlash(rel)}
				sig := obj.Type().(*types.Signature)
				if rv := sig.Recv(); rv != nil {
					t := rv.Type()
					if pt, ok := t.(*types.Pointer); ok {
						t = pt.Elem()
					}
					if n, ok := t.(*types.Named); ok {
						x.recv = n.Obj().Name()
					} else {
						x.recv = tstr(t)
					}
					x.inputs = append(x.inputs, rv)
				}
				for i := 0; i < sig.Params().Len(); i++ {
					x.inputs = append(x.inputs, sig.Params().At(i))
				}
				if len(x.inputs) > 60 {
					fmt.Fprintln(os.Stderr, "mutscan: too many inputs in", obj.FullName())
					os.Exit(1)
				}
				x.sum = &summary{nin: len(x.inputs), class: make([]int, len(x.inputs)), other: make([]bool, len(x.inputs))}
				for i := range x.sum.class {
					x.sum.class[i] = i
				}
				p.fns = append(p.fns, x)
				p.byObj[fkey(obj)] = x
			}
		}
		sc := pk.Types.Scope()
		for _, nm := range sc.Names() {
			if tn, ok := sc.Lookup(nm).(*types.TypeName); ok && !tn.IsAlias() {
				if n, ok := tn.Type().(*types.Named); ok && !types.IsInterface(n) && n.TypeParams().Len() == 0 {
					p.named = append(p.named, n)
				}
			}
		}
	}
	if len(p.fns) == 0 {
		fmt.Fprintln(os.Stderr, "mutscan: no function found under", repo)
		os.Exit(1)
	}
	// summaries to a fixed point
	for round := 0; ; round++ {
		changed := false
		for _, f := range p.fns {
			s := p.analyse(f, false)
			if !s.equal(f.sum) {
				f.sum = s
				changed = true
			}
		}
		if !changed {
			break
		}
		if round > 100 {
			fmt.Fprintln(os.Stderr, "mutscan: summaries do not stabilise")
			os.Exit(1)
		}
	}
	for _, f := range p.fns {
		p.analyse(f, true)
	}
	var w strings.Builder
	w.WriteString("-- GENERATED by tools/mutscan (type-checked mutation facts) from the repository working tree. Do not edit.\n")
	w.WriteString("namespace Gv.Gen.MutFactsT\n\n")
	w.WriteString("/-- a write through memory shared with input `root` (99 = unknown memory): kind of that input (recv / param / unknown),\nits type; the written location: `lkind` = elem / mapelem / field / deref / append / copy / delete / clear, `ltyp` = type of the written\ncontainer (for `field`: the struct declaring the field, `pkg.Struct`), `lfield` = field name; where -/\n")
	w.WriteString("structure W where\n  root : Nat\n  kind : String\n  typ : String\n  lkind : String\n  ltyp : String\n  lfield : String\n  pos : String\nderiving Repr\n\n")
	w.WriteString("/-- a resolved call: callee id; for every input of the callee, the inputs of the caller whose memory may reach it -/\n")
	w.WriteString("structure Call where\n  callee : Nat\n  args : List (List Nat)\nderiving Repr\n\n")
	w.WriteString("/-- a call leaving the analysed packages with an argument of type `typ` that shares memory with the inputs `roots` -/\n")
	w.WriteString("structure Ext where\n  name : String\n  typ : String\n  roots : List Nat\n  pos : String\nderiving Repr\n\n")
	w.WriteString("structure Fn where\n  id : Nat\n  pkg : String\n  recv : String\n  name : String\n  file : String\n  inputs : List String\n  writes : List W\n  calls : List Call\n  exts : List Ext\n  ret : List Nat\n  retGlobal : Bool\n  retUnknown : Bool\n  leaks : List Nat\n  gstores : List String\nderiving Repr\n\n")
	w.WriteString("def fns : List Fn := [\n")
	lines := []string{}
	for _, f := range p.fns {
		ins := []string{}
		for _, v := range f.inputs {
			ins = append(ins, tstr(v.Type()))
		}
		ws := []string{}
		seenW := map[string]bool{}
		for _, x := range f.writes {
			lp := strings.SplitN(x.loc, " ", 2)
			lt, lf := lp[1], ""
			if lp[0] == "field" {
				if k := strings.LastIndex(lt, " "); k >= 0 {
					lt, lf = lt[:k], lt[k+1:]
				}
			}
			s := fmt.Sprintf("⟨%d, %q, %q, %q, %q, %q, %q⟩", x.root, x.kind, x.typ, lp[0], lt, lf, x.at)
			if !seenW[s] {
				seenW[s] = true
				ws = append(ws, s)
			}
		}
		cs := []string{}
		seenC := map[string]bool{}
		for _, c := range f.calls {
			parts := []string{}
			for _, l := range c.args {
				parts = append(parts, nats(l))
			}
			s := fmt.Sprintf("⟨%d, [%s]⟩", c.callee, strings.Join(parts, ", "))
			if !seenC[s] {
				seenC[s] = true
				cs = append(cs, s)
			}
		}
		es := []string{}
		seenE := map[string]bool{}
		for _, e := range f.exts {
			roots := e.roots
			if e.unknown {
				roots = append(append([]int{}, roots...), 99)
			}
			s := fmt.Sprintf("⟨%q, %q, %s, %q⟩", e.name, e.typ, nats(roots), e.at)
			k := fmt.Sprintf("%s|%s|%v", e.name, e.typ, roots)
			if !seenE[k] {
				seenE[k] = true
				es = append(es, s)
			}
		}
		ret := []int{}
		for i := range f.inputs {
			if f.sum.ret&(1<<uint(i)) != 0 {
				ret = append(ret, i)
			}
		}
		leaks := []int{}
		for i := range f.inputs {
			if f.sum.other[i] {
				leaks = append(leaks, i)
			}
		}
		bs := func(b bool) string {
			if b {
				return "true"
			}
			return "false"
		}
		lines = append(lines, fmt.Sprintf("  { id := %d, pkg := %q, recv := %q, name := %q, file := %q, inputs := %s,\n    writes := [%s],\n    calls := [%s],\n    exts := [%s],\n    ret := %s, retGlobal := %s, retUnknown := %s, leaks := %s, gstores := %s }",
			f.id, f.pkg.Name, f.recv, f.obj.Name(), f.file, qstrs(ins), strings.Join(ws, ", "), strings.Join(cs, ", "), strings.Join(es, ", "), nats(ret), bs(f.sum.retGlobal), bs(f.sum.retUnknown), nats(leaks), qstrs(f.gstores)))
	}
	w.WriteString(strings.Join(lines, ",\n"))
	w.WriteString("\n]\n\nend Gv.Gen.MutFactsT\n")
	writeIfChanged(filepath.Join(out, "MutFactsT.lean"), w.String())
}
